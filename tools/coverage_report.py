#!/usr/bin/env python3
"""
tools/coverage_report.py [Cxx ...]     (diagnostic; not a registered check)

Runs the quick tier of the given checks (default: all) with VERIF_COVERAGE set, merges what pbt/cov.py recorded and
prints, per txdbus module, the executable lines that no generated case reached.  The output is read by a person: an
unreached branch inside code a property is anchored in is a generator blind spot.
"""
import glob
import json
import os
import shutil
import subprocess
import sys
import tempfile

HERE = os.path.dirname(os.path.dirname(os.path.abspath(__file__)))
REPO = os.environ.get('VERIF_REPO', '/repo')


def executable_lines(path):
    src = open(path, encoding='utf-8').read()
    code = compile(src, path, 'exec')
    lines = set()
    todo = [code]
    while todo:
        c = todo.pop()
        for _, _, ln in c.co_lines():
            if ln is not None:
                lines.add(ln)
        for k in c.co_consts:
            if hasattr(k, 'co_lines'):
                todo.append(k)
    # docstrings and def/class headers execute at import; keep them, they are simply always covered
    return lines, src.split('\n')


def main():
    props = [a.upper() for a in sys.argv[1:]] or ['C%02d' % i for i in range(1, 21)]
    out = tempfile.mkdtemp(prefix='verifcov-')
    try:
        for p in props:
            env = dict(os.environ, VERIF_COVERAGE=out, VERIF_NO_EVIDENCE='1',
                       VERIF_REPLAY_DIR=os.path.join(out, 'replays'))
            r = subprocess.run(['./check', p, os.environ.get('VERIF_TIER', 'quick')], cwd=HERE, env=env,
                               capture_output=True, text=True)
            print('%s exit %d' % (p, r.returncode), file=sys.stderr)
        seen = set()
        for f in glob.glob(os.path.join(out, '*.json')):
            seen |= set(map(tuple, json.load(open(f))))
        total_exec = total_hit = 0
        for path in sorted(glob.glob(os.path.join(REPO, 'txdbus', '*.py'))):
            fn = os.path.basename(path)
            ex, src = executable_lines(path)
            hit = {ln for f, ln in seen if f == fn}
            miss = sorted(ex - hit)
            total_exec += len(ex)
            total_hit += len(ex & hit)
            print('== %s: %d/%d executable lines reached' % (fn, len(ex & hit), len(ex)))
            if not hit:
                print('   (module never executed under these checks)')
                continue
            for ln in miss:
                print('   %4d  %s' % (ln, src[ln - 1].rstrip()[:110]))
        print('TOTAL %d/%d' % (total_hit, total_exec))
    finally:
        shutil.rmtree(out, ignore_errors=True)


if __name__ == '__main__':
    main()
