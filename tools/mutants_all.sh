#!/bin/bash
# Re-validates every mutants/*.patch against the check named by its file-name prefix (cNN-...) and writes
# mutants/KILL_MATRIX.txt.  Usage: tools/mutants_all.sh [jobs]
cd "$(dirname "$0")/.." || exit 2
jobs=${1:-4}
ls mutants/*.patch | xargs -P "$jobs" -I{} bash -c 'p={}; b=$(basename $p); id=$(echo ${b:0:3} | tr a-z A-Z); tools/mutant.sh $p $id quick 2>&1 | grep -a "^KILLED\|^SURVIVED\|^UNREALISTIC\|^PATCH-FAILED\|^ERROR" | head -1' | sort > mutants/KILL_MATRIX.txt
cat mutants/KILL_MATRIX.txt | cut -c1-150
echo "killed: $(grep -c '^KILLED' mutants/KILL_MATRIX.txt)  other: $(grep -vc '^KILLED' mutants/KILL_MATRIX.txt)"
