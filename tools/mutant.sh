#!/bin/bash
# tools/mutant.sh <patch-file> <Cxx> [tier] [--no-tests]
# Copies /repo to a scratch tree outside /repo and /verif, applies the patch, checks that the
# repository's own tests still pass there (a mutant that fails them is not "realistic"),
# runs ./check <Cxx> against the scratch tree and reports KILLED / SURVIVED.
set -u
patch=$(readlink -f "$1"); prop=$2; tier=${3:-quick}; notests=${4:-}
here=$(cd "$(dirname "$0")/.." && pwd)
scratch=$(mktemp -d /tmp/txdbus-mutant.XXXXXX)
trap 'rm -rf "$scratch"' EXIT
cp -r /repo/txdbus /repo/tests /repo/setup.py /repo/setup.cfg "$scratch"/ 2>/dev/null
( cd "$scratch" && git apply --whitespace=nowarn "$patch" ) || { echo "PATCH-FAILED $patch"; exit 3; }
if [ "$notests" != "--no-tests" ]; then
  iso=""; if unshare -n true 2>/dev/null; then iso="unshare -n"; fi    # fixed abstract socket name in upstream tests
  res=$(cd "$scratch" && PYTHONPATH="$scratch" PYTHONDONTWRITEBYTECODE=1 $iso /venv/bin/python -m pytest -q -p no:cacheprovider -x \
        --deselect tests/test_authentication.py::DBusCookieCookieHandlingTester 2>&1 | tail -1)
  case "$res" in
    *failed*|*error*) echo "UNREALISTIC (repo tests fail: $res) $patch"; exit 4;;
  esac
fi
out=$(cd "$here" && VERIF_REPO="$scratch" VERIF_NO_EVIDENCE=1 VERIF_REPLAY_DIR="$scratch/replays" ./check "$prop" "$tier" 2>&1)
rc=$?
if [ $rc -eq 1 ] && echo "$out" | grep -q '^VIOLATION'; then
  echo "KILLED   $prop $(basename "$patch"): $(echo "$out" | grep -A1 '^VIOLATION' | grep key= | head -3 | tr '\n' ' ')"
  exit 0
elif [ $rc -eq 0 ]; then
  echo "SURVIVED $prop $(basename "$patch")"
  exit 1
else
  echo "ERROR rc=$rc $prop $(basename "$patch")"; echo "$out" | tail -15
  exit 2
fi
