#!/usr/bin/env python3
"""
tools/ingest_seed.py <worktree> <Cxx> <name> "<what it needs to manifest>"

Confirms a seeded change produced by an independent sub-agent and files it under seeded/<name>/:
  1. patch.diff applies to a clean copy of /repo's HEAD (scratch copy outside /repo and /verif);
  2. the repository's own suite is still at the pinned baseline with the patch;
  3. demo.py exits non-zero with the patch and zero without it;
  4. runs ./check <Cxx> quick against the patched copy and records KILLED / SURVIVED.
"""
import json
import os
import shutil
import subprocess
import sys
import tempfile

HERE = os.path.dirname(os.path.dirname(os.path.abspath(__file__)))


def sh(cmd, **kw):
    return subprocess.run(cmd, shell=True, capture_output=True, text=True, **kw)


def main():
    wt, prop, name, needs = sys.argv[1:5]
    extra_checks = sys.argv[5:]
    patch = os.path.join(wt, 'patch.diff')
    demo = os.path.join(wt, 'demo.py')
    assert os.path.exists(patch) and os.path.exists(demo), 'missing patch.diff / demo.py'
    scratch = tempfile.mkdtemp(prefix='txdbus-seed-')
    ran = []
    try:
        sh('git -C /repo archive HEAD | tar -x -C %s' % scratch)
        shutil.copy(demo, os.path.join(scratch, 'demo.py'))     # demos often put their own directory on sys.path
        demo_run = os.path.join(scratch, 'demo.py')
        # demo without the patch
        r0 = sh('PYTHONPATH=%s PYTHONDONTWRITEBYTECODE=1 /venv/bin/python %s' % (scratch, demo_run), cwd=scratch)
        ran.append('demo on clean tree -> exit %d' % r0.returncode)
        ap = sh('git apply --whitespace=nowarn %s' % patch, cwd=scratch)
        if ap.returncode != 0:
            print('PATCH DOES NOT APPLY', ap.stderr)
            return 3
        r1 = sh('PYTHONPATH=%s PYTHONDONTWRITEBYTECODE=1 /venv/bin/python %s' % (scratch, demo_run), cwd=scratch)
        ran.append('demo on patched tree -> exit %d' % r1.returncode)
        t = sh('%s/tools/repo_tests.sh %s' % (HERE, scratch))
        ran.append('repo suite on patched tree -> %s' % t.stdout.strip().splitlines()[-1])
        ok = r0.returncode == 0 and r1.returncode != 0 and 'baseline ok' in t.stdout
        results = {}
        for p in [prop] + extra_checks:
            c = sh('VERIF_REPO=%s VERIF_NO_EVIDENCE=1 VERIF_REPLAY_DIR=%s/replays ./check %s quick' % (scratch, scratch, p), cwd=HERE)
            keys = [ln.strip()[4:] for ln in c.stdout.splitlines() if ln.strip().startswith('key=')]
            results[p] = {'exit': c.returncode, 'verdict': 'KILLED' if c.returncode == 1 else ('SURVIVED' if c.returncode == 0 else 'ERROR'),
                          'keys': keys[:6]}
            ran.append('./check %s quick (VERIF_REPO=patched copy) -> exit %d %s' % (p, c.returncode, keys[:3]))
        def say(*a):
            try:
                print(*a)
            except BrokenPipeError:
                pass
        say('confirmed' if ok else 'NOT CONFIRMED', json.dumps(results))
        for ln in ran:
            say('  ', ln)
        if not ok:
            print(r0.stdout[-500:], r0.stderr[-500:], r1.stdout[-500:], r1.stderr[-300:], t.stdout[-300:])
            return 1
        dest = os.path.join(HERE, 'seeded', name)
        os.makedirs(dest, exist_ok=True)
        shutil.copy(patch, os.path.join(dest, 'patch.diff'))
        shutil.copy(demo, os.path.join(dest, 'demo.py'))
        meta = {'property': prop, 'name': name, 'needs_to_manifest': needs,
                'demo_output_with_patch': (r1.stdout + r1.stderr)[-1200:],
                'what_was_run': ran, 'check_results': results,
                'base_commit': sh('git -C /repo rev-parse --short HEAD').stdout.strip()}
        with open(os.path.join(dest, 'meta.json'), 'w') as f:
            json.dump(meta, f, indent=1)
        return 0
    finally:
        shutil.rmtree(scratch, ignore_errors=True)


if __name__ == '__main__':
    sys.exit(main())
