#!/usr/bin/env python3
"""Regenerates MANIFEST.json from the table below (kept here so the manifest is always valid)."""
import json
import os

HERE = os.path.dirname(os.path.dirname(os.path.abspath(__file__)))
ALL = ['C%02d' % i for i in range(1, 21)]

TRUST = ('pbt/refcodec.py (reference codec/grammars written from the D-Bus specification, self-tested on every run '
         'against vectors pinned in the repository tests); Hypothesis 6.168; CPython 3.12; Twisted 26.4 test doubles')

CHECKS = {
    'C01': dict(
        category='exploration', design_ref='DESIGN.md section 3 C01',
        technique='property-based round trip (Hypothesis, grammar-directed generators) + exhaustive type-code/offset grid',
        text='Generated search over the type grammar x conforming values x presentations x byte order x offsets with a '
             'round-trip and offset-threading oracle; absence of a counterexample in thousands of distinct non-trivial '
             'cases per run plus an exhaustive 17x16x2 grid. Right level: the domain is infinite, the oracle is exact.',
        note='normal form computed by refcodec from the generated value tree; ' + TRUST),
    'C02': dict(
        category='exploration', design_ref='DESIGN.md section 3 C02',
        technique='differential testing against an independent reference codec (Hypothesis) + exhaustive alignment grid',
        text='Byte-for-byte comparison of marshal() with a reference encoder, and unmarshal() of reference bytes '
             '(including shapes txdbus cannot itself produce), over the C01 space; exhaustive 17 codes x 64 offsets x 2 '
             'orders alignment/zero-padding grid. Catches symmetric encoder/decoder errors a round trip cannot.',
        note=TRUST),
    'C03': dict(
        category='exploration', design_ref='DESIGN.md section 3 C03',
        technique='Hypothesis-generated messages, strict reference decoder + differential parse of reference-encoded bytes',
        text='Every generated message (4 classes x field subsets x flags x bodies x serial-counter start values) must be '
             'accepted by a strict spec decoder and parse back identically; reference-encoded variants (either byte '
             'order, permuted and unknown header fields, fields of other message types, extra flag bits) must parse to the same message; invalid names, the reserved '
             'path and the size limit (synthetic limits and the real 2^27 boundary) must raise MarshallingError.',
        note=TRUST),
    'C04': dict(
        category='exploration', design_ref='DESIGN.md section 3 C04',
        technique='schedule generation: Hypothesis-generated streams x generated/exhaustive read partitions fed to dataReceived',
        text='The harness owns the read boundaries: generated message streams (mixed byte orders, CR LF forced into '
             'binary data) are fed under random partitions, byte-at-a-time, single reads, every single and every double '
             'cut of short streams (exhaustive per stream) and 1500/5000-message coalesced reads, through a '
             'pre-authenticated receiver and through real server/client handshakes; deliveries must equal the sent '
             'sequence.',
        note='in-memory transport instead of a socket; peer-credential lookup disabled; ' + TRUST),
    'C05': dict(
        category='exploration', design_ref='DESIGN.md section 3 C05',
        technique='mutation/grammar-directed fuzzing (Hypothesis, enumerated hostile families, atheris in the thorough tier) with an interpreter-step budget oracle (sys.settrace), result-size bounds (nodes, text) and metamorphic cost relations (copied bytes, additive cost of header fields and body)',
        text='Truncations (exhaustive per message), byte mutations, every length field rewritten to lying values '
             '(located by the reference encoder offset map), a list of hostile signatures in header and variants, and '
             'raw bytes are fed to parseMessage, unmarshal and dataReceived; each call must return or raise within a '
             'step budget linear in the input length and may not build an oversized result. Finds loops and unbounded '
             'growth; says nothing about constant factors.',
        note='budget = 20000+20000*n traced lines inside txdbus (generous: measured worst legal-ish input 12.5k/byte); '
             + TRUST),
    'C06': dict(
        category='exploration', design_ref='DESIGN.md section 3 C06',
        technique='bounded-exhaustive + random line sequences in lock step with a reference server state machine (model-based testing)',
        text='All sequences of authentication lines to length 4/5 over a 12-letter abstract alphabet x 3 mechanism-outcome '
             'scripts, and random ones to length 40, are fed to the real BusAuthenticator (scripted mechanisms) in lock '
             'step with a nondeterministic reference server model from the spec, then again under another read splitting '
             '(identical transcript required); an independent safety invariant is evaluated on the raw transcript; '
             'framing faults at the 16 KiB boundary; the real EXTERNAL / DBUS_COOKIE_SHA1 / ANONYMOUS mechanisms against '
             'a spec-following client with right and perturbed cookie responses.',
        note='mechanism outcomes are scripted through the IBusAuthenticationMechanism interface; peer credentials come '
             'from a stub socket; ' + TRUST),
    'C07': dict(
        category='exploration', design_ref='DESIGN.md section 3 C07',
        technique='bounded-exhaustive + random server-line sequences with history rules; full handshakes against a reference server actor',
        text='All sequences of server lines to length 4/5 over 11 abstract lines x UNIX / non-UNIX transport (and random '
             'ones to length 30) are fed to the real ClientAuthenticator; rules S1-S4 (BEGIN only after OK and the fd '
             'negotiation answer, mechanism order, no stall, close when outside the protocol) are evaluated on the '
             'write/close history and the transcript must not depend on read splitting; 56 full handshakes against a '
             'spec-following server actor must complete.',
        note='liveness (never stalls) is decided as bounded safety: the harness is the only event source; ' + TRUST),
    'C08': dict(
        category='exploration', design_ref='DESIGN.md section 3 C08',
        technique='model-based history testing (Hypothesis) + exhaustive enumeration of event orderings on a virtual clock',
        text='Histories of calls, replies, error replies, duplicates, unsolicited replies, deadline expiries and loss on one '
             'in-memory connection are executed against a reference model of "first applicable completion per serial"; '
             'after every step every Deferred, the pending-call table and the virtual-clock timers are compared with the '
             'model. All orderings of reply/error/deadline events for 2 (quick) and 3 (thorough: 362880) concurrent '
             'calls are enumerated.',
        note='harness owns transport and clock (twisted.internet.task.Clock substituted for txdbus.client.reactor); ' + TRUST),
    'C09': dict(
        category='fault_enumeration', design_ref='DESIGN.md section 3 C09',
        technique='fault injection at every crash point: byte-index cuts of the server stream, unreachable-endpoint subsets, loss after every history prefix',
        text='client.connect runs on MemoryReactorClock; for every subset of unreachable addresses and every byte index '
             'at which the server stream can be cut (and refusal / Hello-error / garbage scripts) the connect Deferred must '
             'fire exactly once with the right outcome at quiescence. An established connection with calls, timers, '
             'proxies of every kind and disconnect callbacks is lost after every prefix of a generated history; every '
             'pending call must fail once with the reason, timers vanish, callbacks run once, nothing fires later. The same '
             'with errbacks and disconnect callbacks that re-enter the connection while being notified (issue a call, '
             'cancel themselves or another callback), all action pairs enumerated for small scenarios.',
        note='liveness decided as bounded safety at quiescence (transport closed, virtual clock dry); ' + TRUST),
    'C10': dict(
        category='exploration', design_ref='DESIGN.md section 3 C10',
        technique='Hypothesis-generated object classes and call messages, dispatch oracle + strict reference decoding of replies',
        text='Object classes are generated (interfaces on base and subclass, dbus_<name> and decorator bindings, shared '
             'member names, dbusCaller) and driven with generated call messages (parsed from reference bytes, flags '
             'included) and scripted outcomes incl. late Deferreds, exceptions with hostile text, unencodable returns; the '
             'number, addressing and content of replies and the invocation log are compared with a dispatch oracle coded '
             'from the property statement.',
        note='DBusObjectHandler is driven on a recording connection stub; ' + TRUST),
    'C11': dict(
        category='exploration', design_ref='DESIGN.md section 3 C11',
        technique='end-to-end simulation: real clients + real bus on scheduler-owned links, Hypothesis-drawn and systematically enumerated delivery schedules',
        text='2-4 real DBusClientConnections and the real Bus run in one process on in-memory links whose byte delivery the '
             'harness schedules; generated exported objects, proxies obtained explicitly / by known name / by '
             'introspection, 1-3 concurrent calls with unique tokens and scripted outcomes (values, exceptions, late '
             'Deferreds). Random schedules with byte-level splitting, and every message-granular order for small '
             'scenarios (systematic re-execution). At quiescence invocation log and caller results are compared with '
             'what was sent and returned.',
        note='set-up traffic is delivered FIFO; the bus offers ANONYMOUS only; ' + TRUST),
    'C12': dict(
        category='exploration', design_ref='DESIGN.md section 3 C12',
        technique='stateful add/remove/deliver histories (Hypothesis) against an independent reference matcher; rule-text round trip through a reference parser',
        text='Rule sets over all constraint keys and messages built from pools containing matches, single-key near-misses and '
             'prefix-sharing siblings (half of the messages derived from a rule with one constrained place perturbed; value '
             'and path constraints on different arguments of one rule) are run as add/remove/deliver histories on MessageRouter, through '
             'DBusClientConnection.addMatch/delMatch (rule text parsed back by a reference match-rule parser), through '
             'proxy signal subscriptions with matching and mismatching signatures, and through Bus.dbus_AddMatch; after '
             'each delivery the invoked callbacks must equal the active rules the reference matcher accepts.',
        note=TRUST),
    'C13': dict(
        category='exploration', design_ref='DESIGN.md section 3 C13',
        technique='model-based testing: bounded-exhaustive + random name-ownership histories on the real Bus against a reference name table',
        text='Every history of RequestName (8 flag words) / ReleaseName / disconnect of length <=3 (quick) / <=4 (thorough) '
             'by 3 clients on one name, three requests with all 8^3 flag words followed by every operation (pair of operations '
             'in the thorough tier), and random histories to 40 steps with 4 clients and 2 names, run on the real Bus '
             'through raw scripted clients (real handshake, Hello, wire messages); after every step reply code, '
             'NameAcquired/NameLost signals, GetNameOwner and ListQueuedOwners are compared with a reference name table. '
             'requestBusName flag bits and FailedToAcquireName mapping are enumerated exhaustively.',
        note='in-memory transports; bus mechanisms as configured by default; ' + TRUST),
    'C14': dict(
        category='exploration', design_ref='DESIGN.md section 3 C14',
        technique='model-based routing histories with generated/exhaustive delivery interleavings on the real Bus',
        text='Histories of connects, disconnects, name ownership incl. waiting clients, replaceable owners and take-overs, '
             'AddMatch/RemoveMatch and bursts of '
             'in-flight unicast (all four types, forged/absent/true sender, either byte order, bodies from the full value '
             'space) and broadcast messages; the bus reads the per-client byte queues in drawn (client, chunk) '
             'interleavings, exhaustively at message granularity for 2-3 clients x 2-3 messages; every client inbox is '
             'compared with a model of owners and rule sets (exactly-once, right peer, true sender, order, verbatim '
             'content, bus-addressed messages answered and not forwarded).',
        note='broadcast multiplicity and the fate of messages to unowned names are not asserted; ' + TRUST),
    'C15': dict(
        category='exploration', design_ref='DESIGN.md section 3 C15',
        technique='Hypothesis-generated interface definitions, XML round trip with an independent ElementTree reading and reference signature splitter',
        text='Generated interface definitions (methods, signals, properties with signatures from the full grammar, all '
             'access and notification modes, incremental definition) are turned into introspection XML, read back with '
             'getInterfacesFromXML (replace on/off, known interfaces pre-registered) and independently with ElementTree; '
             'names, signatures, argument counts, access modes must survive and a proxy built from the parsed interfaces '
             'must accept exactly the declared calls.',
        note=TRUST),
    'C16': dict(
        category='exploration', design_ref='DESIGN.md section 3 C16',
        technique='model-based export/unexport histories: bounded-exhaustive + Hypothesis, every path queried after every step',
        text='All admissible export/unexport histories to length 4/5 over a 6-path pool with prefix traps, and random ones '
             'to 30 steps over 9 paths (three object classes incl. a subclass extending an inherited interface; re-export of '
             'a fresh object or of the same instance), run on DBusObjectHandler; after every step an ordinary call, Introspect and '
             'GetManagedObjects are issued at every pool path and compared with a set model; the InterfacesAdded / '
             'InterfacesRemoved signals of every step are checked.',
        note='recording connection stub; replies decoded by the strict reference decoder; ' + TRUST),
    'C17': dict(
        category='exploration', design_ref='DESIGN.md section 3 C17',
        technique='model-based property histories (Hypothesis) on generated class hierarchies against a store model',
        text='Generated class hierarchies (properties of every wrapper type, s, d and containers; all access and '
             'notification modes; explicit and implicit interface binding; colliding names; base/subclass '
             'contributions) are driven with histories of local assignment and remote Get/Set/GetAll with right, '
             'empty, other and unknown interface and right/wrong names; values, variant types, error conditions, GetAll '
             'contents and PropertiesChanged signals are compared with a store model.',
        note=TRUST),
    'C18': dict(
        category='exploration', design_ref='DESIGN.md section 3 C18',
        technique='bounded-exhaustive string enumeration + Hypothesis, differential against hand-written grammar recognisers',
        text='Every string of length <=5 (quick) / <=6 (thorough) over one representative per character class is given '
             'to all five validators and compared with recognisers coded from the spec grammar (complete for that '
             'space); random long strings and 254/255/256-byte names; message constructors are checked never to emit '
             'a name the grammar rejects.',
        note=TRUST),
    'C19': dict(
        category='exploration', design_ref='DESIGN.md section 3 C19',
        technique='exhaustive grammar enumeration of signatures + Hypothesis-generated Python values, round-trip oracle',
        text='genCompleteTypes is compared with the reference decomposition on every valid signature up to a bounded '
             'length (complete for that space) and random ones to 255 bytes / nesting 32; sigFromPy is checked on '
             'generated nested Python values (homogeneous, unrelated-class and subclass-instance containers) to give '
             'one complete type that encodes and decodes back to an equal value.',
        note='value generator restricted to the claim of the property (no same-class/different-type siblings); ' + TRUST),
    'C20': dict(
        category='exploration', design_ref='DESIGN.md section 3 C20',
        technique='schedule generation: Hypothesis-drawn and exhaustively enumerated fd-arrival/read interleavings against a reference encoder (incl. shared attachments, refused messages that carry descriptors)',
        text='Sender: generated calls with 0-3 descriptors through callRemote on a UNIX transport double; descriptors '
             'must precede the bytes in argument order and the header must declare their count. Receiver: generated '
             'streams with every stream-consistent placement of descriptor arrivals (exhaustive for <=3 messages x <=2 '
             'descriptors, random with byte-level splitting beyond, bursts of up to 14 messages / 42 descriptors queued ahead '
             'of the bytes); each h argument must resolve to its own token.',
        note='the kernel is represented by the stream model in the property statement (transport double); ' + TRUST),
}

NOT_YET = 'check under construction in this session (see DESIGN.md); will be claimed when its harness is committed'


def main():
    checks = []
    for pid in ALL:
        c = CHECKS.get(pid)
        if not c:
            continue
        checks.append({
            'property_id': pid,
            'quick_cmd': './check %s quick' % pid,
            'thorough_cmd': './check %s thorough' % pid,
            'evidence_file': 'evidence/%s.json' % pid,
            'replay_cmd_template': './check --replay {path}',
            'engine': 'pbt',
            'level_claimed': {'category': c['category'], 'text': c['text'], 'design_ref': c['design_ref']},
            'level_note': c['note'],
            'technique': c['technique'],
        })
    manifest = {
        'version': 1,
        'setup_cmd': "(/venv/bin/python -c 'import hypothesis' 2>/dev/null || /venv/bin/pip install --no-index "
                     "--find-links /opt/veriftools/wheels hypothesis) && (test -d .deps/atheris || /venv/bin/pip install "
                     "--no-index --find-links /opt/veriftools/wheels --target .deps atheris >/dev/null 2>&1 || true)",
        'hooks': {
            'guard': 'TXDBUS_VERIF',
            'enable': 'no source hooks are needed: every observation point is reachable from outside (DESIGN.md 1.5)',
            'baseline_off_cmd': 'cd /repo && /venv/bin/python -m pytest -ra -q -p no:cacheprovider',
            'source_commits': [],
            'add_only': True,
        },
        'engines': [{
            'name': 'pbt', 'path': 'pbt/runner.py', 'serves_properties': sorted(CHECKS),
            'kind_free_text': 'Hypothesis property-based / stateful testing, bounded-exhaustive enumeration and '
                              'fault/schedule injection through in-memory transports, against explicit reference models',
        }],
        'checks': checks,
        'not_applicable': [{'property_id': p, 'reason': NOT_YET} for p in ALL if p not in CHECKS],
        'notes': 'Entry point ./check <Cxx> <quick|thorough>; VERIF_SEED selects the Hypothesis seed; VERIF_REPO '
                 '(default /repo) selects the tree under test. Known findings: KNOWN_FINDINGS.txt. Every check runs a '
                 'second, thinned pass in a python -O child (asserts compiled away, ASCII locale, another hash seed, DEBUG logging enabled); its violations count as the check\'s own '
                 '(DESIGN.md 1.4a).',
    }
    with open(os.path.join(HERE, 'MANIFEST.json'), 'w') as f:
        json.dump(manifest, f, indent=1)
        f.write('\n')


if __name__ == '__main__':
    main()
