#!/usr/bin/env python3
"""tools/mkmutant.py <name> <repo-relative-file> <old> <new> [count]
Writes mutants/<name>.patch replacing `old` by `new` (exactly one occurrence unless count given)."""
import difflib, os, sys
name, rel, old, new = sys.argv[1:5]
count = int(sys.argv[5]) if len(sys.argv) > 5 else 1
repo = os.environ.get('VERIF_REPO', '/repo')
src = open(os.path.join(repo, rel)).read()
old = old.encode().decode('unicode_escape'); new = new.encode().decode('unicode_escape')
assert src.count(old) >= 1, 'pattern not found'
if count == 1:
    assert src.count(old) == 1, 'pattern occurs %d times' % src.count(old)
dst = src.replace(old, new, count if count > 0 else -1)
diff = ''.join(difflib.unified_diff(src.splitlines(True), dst.splitlines(True), 'a/' + rel, 'b/' + rel))
out = os.path.join(os.path.dirname(os.path.dirname(os.path.abspath(__file__))), 'mutants', name + '.patch')
open(out, 'w').write(diff)
print(out)
