#!/usr/bin/env python3
"""tools/automutate_persist.py <results.jsonl> <out.json>: keeps the verdicts of a mechanical mutation campaign
(tools/automutate.py) in the repository: summary counts and, per mutant, file / line / operator / verdict / killing check."""
import collections
import json
import sys

src, out = sys.argv[1:3]
rows = {}
for ln in open(src):
    try:
        r = json.loads(ln)
    except ValueError:
        continue
    if r.get('verdict'):
        rows[r['id']] = r          # a mutant evaluated twice keeps its last verdict
muts = [{'id': r['id'], 'file': r['file'], 'line': r['line'], 'op': r['op'], 'old': r['old'].strip(), 'new': r['new'].strip(),
         'verdict': r['verdict'], 'by': r.get('by'), 'keys': r.get('keys')} for _, r in sorted(rows.items())]
summary = dict(collections.Counter(m['verdict'] for m in muts))
json.dump({'summary': summary, 'mutants': muts}, open(out, 'w'), indent=1)
print(summary)
