#!/usr/bin/env python3
"""
tools/automutate.py gen   -> writes /tmp/automut/mutants.jsonl (one mechanical mutant per line)
tools/automutate.py run <index>   -> evaluates one mutant, appends the verdict to /tmp/automut/results.jsonl
tools/automutate.py report

Mechanical first-order mutants of txdbus/*.py (operator / constant / statement-deletion).  A mutant is interesting only
if the repository's own suite stays at its baseline; it is then run against the quick tier of the checks mapped to its
file until one reports a VIOLATION.  Survivors are triaged by hand (equivalent / outside every property / blind spot).
"""
import json
import os
import re
import shutil
import subprocess
import sys
import tempfile

HERE = os.path.dirname(os.path.dirname(os.path.abspath(__file__)))
OUT = '/tmp/automut'
FILES = {
    'marshal.py': ['C01', 'C02', 'C19', 'C18', 'C05', 'C03'],
    'message.py': ['C03', 'C18', 'C20', 'C04', 'C14'],
    'protocol.py': ['C04', 'C06', 'C07', 'C20', 'C05'],
    'authentication.py': ['C06', 'C07'],
    'client.py': ['C08', 'C09', 'C12', 'C13', 'C11'],
    'objects.py': ['C10', 'C17', 'C16', 'C09', 'C12', 'C11', 'C15'],
    'bus.py': ['C13', 'C14', 'C12', 'C11'],
    'router.py': ['C12', 'C14'],
    'interface.py': ['C15', 'C17', 'C19'],
    'introspection.py': ['C15', 'C16', 'C11'],
    'endpoints.py': ['C09'],
    'error.py': ['C08', 'C13'],
}
OPS = [
    (r'==', '!='), (r'!=', '=='), (r'<=', '<'), (r'>=', '>'), (r'(?<![<>=!])<(?![<=])', '<='), (r'(?<![<>=!-])>(?![>=])', '>='),
    (r'\band\b', 'or'), (r'\bor\b', 'and'), (r'\bnot ', ''), (r'\bTrue\b', 'False'), (r'\bFalse\b', 'True'),
    (r'\+ 1\b', '+ 2'), (r'- 1\b', '- 0'), (r'\+ 4\b', '+ 3'), (r'\b0\b', '1'), (r'\b1\b', '0'), (r'\b8\b', '4'),
    (r'\bis not None\b', 'is None'), (r'\bis None\b', 'is not None'), (r'\[0\]', '[-1]'), (r'\[1:\]', '[:]'),
    (r'\.append\(', '.insert(0, '), (r'\bin\b', 'not in'), (r'\bbreak\b', 'pass'), (r'\bcontinue\b', 'pass'),
]


def gen():
    os.makedirs(OUT, exist_ok=True)
    muts = []
    for fn in sorted(FILES):
        path = os.path.join('/repo/txdbus', fn)
        lines = open(path).read().split('\n')
        indoc = False
        for ln, line in enumerate(lines):
            st = line.strip()
            if st.count('"""') % 2 == 1:
                indoc = not indoc
                continue
            if indoc or not st or st.startswith('#') or st.startswith(('import ', 'from ', 'def ', 'class ', '@', '"""')):
                continue
            code = line.split(' #')[0]
            for pat, rep in OPS:
                for m in re.finditer(pat, code):
                    # skip matches inside string literals (rough)
                    pre = code[:m.start()]
                    if pre.count("'") % 2 == 1 or pre.count('"') % 2 == 1:
                        continue
                    new = code[:m.start()] + rep + code[m.end():]
                    if new != code:
                        muts.append({'file': fn, 'line': ln + 1, 'old': line, 'new': new + line[len(code):], 'op': '%s->%s' % (pat, rep)})
            # statement deletion (simple statements only)
            if re.match(r'^\s+(self\.|[a-zA-Z_][\w\.\[\]\'"]*\s*(\+|-)?=|del |raise |return |[a-zA-Z_][\w\.]*\()', line) and not st.endswith((':', '(', ',', '\\', '[', '{')) \
                    and st.count('(') == st.count(')'):
                indent = line[:len(line) - len(line.lstrip())]
                muts.append({'file': fn, 'line': ln + 1, 'old': line, 'new': indent + 'pass', 'op': 'delete-statement'})
    # deterministic thinning: keep every k-th so the campaign stays bounded
    k = max(1, len(muts) // int(os.environ.get('AUTOMUT_N', '700')))
    muts = muts[int(os.environ.get('AUTOMUT_OFFSET', '0')) % k::k]
    with open(os.path.join(OUT, 'mutants.jsonl'), 'w') as f:
        for i, m in enumerate(muts):
            m['id'] = i
            f.write(json.dumps(m) + '\n')
    print(len(muts), 'mutants')


def run(idx):
    muts = [json.loads(l) for l in open(os.path.join(OUT, 'mutants.jsonl'))]
    m = muts[idx]
    scratch = tempfile.mkdtemp(prefix='automut-')
    res = dict(m)
    try:
        shutil.copytree('/repo/txdbus', os.path.join(scratch, 'txdbus'))
        shutil.copytree('/repo/tests', os.path.join(scratch, 'tests'))
        p = os.path.join(scratch, 'txdbus', m['file'])
        lines = open(p).read().split('\n')
        assert lines[m['line'] - 1] == m['old']
        lines[m['line'] - 1] = m['new']
        open(p, 'w').write('\n'.join(lines))
        c = subprocess.run(['/venv/bin/python', '-m', 'py_compile', p], capture_output=True)
        if c.returncode != 0:
            res['verdict'] = 'does-not-compile'
            return res
        t = subprocess.run([os.path.join(HERE, 'tools', 'repo_tests.sh'), scratch], capture_output=True, text=True)
        if 'baseline ok' not in t.stdout:
            res['verdict'] = 'caught-by-repo-tests'
            return res
        res['verdict'] = 'SURVIVED'
        for chk in FILES[m['file']]:
            env = dict(os.environ, VERIF_REPO=scratch, VERIF_NO_EVIDENCE='1', VERIF_REPLAY_DIR=os.path.join(scratch, 'replays'))
            c = subprocess.run(['./check', chk, 'quick'], cwd=HERE, env=env, capture_output=True, text=True)
            if c.returncode == 1:
                keys = [ln.strip()[4:] for ln in c.stdout.splitlines() if ln.strip().startswith('key=')]
                res['verdict'] = 'KILLED'
                res['by'] = chk
                res['keys'] = keys[:3]
                break
            if c.returncode == 2:
                res['verdict'] = 'HARNESS-ERROR'
                res['by'] = chk
                res['detail'] = (c.stderr or '')[-600:]
                break
        return res
    finally:
        shutil.rmtree(scratch, ignore_errors=True)
        with open(os.path.join(OUT, 'results.jsonl'), 'a') as f:
            f.write(json.dumps(res) + '\n')


def report():
    rs = [json.loads(l) for l in open(os.path.join(OUT, 'results.jsonl'))]
    from collections import Counter
    print(Counter(r.get('verdict') for r in rs))
    for r in rs:
        if r.get('verdict') in ('SURVIVED', 'HARNESS-ERROR'):
            print('%-9s %s:%d  %s   %s  ==>  %s' % (r['verdict'], r['file'], r['line'], r['op'], r['old'].strip(), r['new'].strip()))


if __name__ == '__main__':
    if sys.argv[1] == 'gen':
        gen()
    elif sys.argv[1] == 'run':
        r = run(int(sys.argv[2]))
        print(r['id'], r['verdict'], r.get('by', ''))
    else:
        report()
