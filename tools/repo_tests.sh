#!/bin/bash
# Runs the repository's own suite on /repo (or $1) and compares with the pinned baseline: 164 passed, and the only
# failures are the 3 always-fail cookie-handling tests.  A few upstream tests use real timers and flake when the machine is
# loaded: a non-baseline result is retried (up to 3 runs) before it is believed.
repo=${1:-/repo}
# some upstream tests listen on one fixed abstract UNIX socket name: runs in parallel clash ("Address already in use").
# A private network namespace (abstract sockets belong to it) keeps concurrent runs apart where unshare is permitted.
iso=""
if unshare -n true 2>/dev/null; then iso="unshare -n"; fi
for attempt in 1 2 3; do
  out=$(cd "$repo" && PYTHONDONTWRITEBYTECODE=1 $iso /venv/bin/python -m pytest -q -p no:cacheprovider 2>&1)
  bad=$(echo "$out" | grep '^FAILED' | grep -v 'DBusCookieCookieHandlingTester::test_\(del_cookie_last\|del_cookie_with_remaining\|make_cookies\)')
  if [ -z "$bad" ] && echo "$out" | tail -1 | grep -q '164 passed'; then echo "$out" | tail -1; echo "baseline ok"; exit 0; fi
done
echo "$out" | tail -1; echo "BASELINE BROKEN"; echo "$bad"; exit 1
