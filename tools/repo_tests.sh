#!/bin/bash
# Runs the repository's own suite on /repo (or $1) and compares with the pinned baseline: 164 passed, and the only
# failures are the 3 always-fail cookie-handling tests.
repo=${1:-/repo}
out=$(cd "$repo" && PYTHONDONTWRITEBYTECODE=1 /venv/bin/python -m pytest -q -p no:cacheprovider 2>&1)
echo "$out" | tail -1
bad=$(echo "$out" | grep '^FAILED' | grep -v 'DBusCookieCookieHandlingTester::test_\(del_cookie_last\|del_cookie_with_remaining\|make_cookies\)')
if [ -n "$bad" ] || ! echo "$out" | tail -1 | grep -q '164 passed'; then echo "BASELINE BROKEN"; echo "$bad"; exit 1; fi
echo "baseline ok"
