#!/venv/bin/python
"""
Coverage-guided fuzzing of the message decoder (C05), oracle inside the target:
each input must be decoded or rejected within the interpreter-step budget of pbt/budget.py.

usage: c05_atheris.py <corpus_dir> -runs=N -seed=S [-max_len=L]
A violating input makes the target raise; libFuzzer then writes crash-<sha1> into -artifact_prefix.
The C05 check re-runs such an input through its own oracle before anything is reported.
"""
import os
import sys

HERE = os.path.dirname(os.path.dirname(os.path.abspath(__file__)))
sys.path.insert(0, HERE)
sys.path.insert(0, os.environ.get('VERIF_REPO', '/repo'))
sys.path.insert(0, os.path.join(HERE, '.deps'))

import atheris  # noqa: E402

with atheris.instrument_imports(include=['txdbus']):
    import txdbus.marshal  # noqa: F401
    import txdbus.message as MSG
    import txdbus.protocol as P

from pbt import budget as B  # noqa: E402
from pbt import simnet as N  # noqa: E402

LINES_BASE, LINES_PER_BYTE = 20000, 20000


class StepBudgetExceeded(Exception):
    pass


def one_input(data):
    # no global state to reset: parseMessage and a fresh protocol object are pure functions of the bytes
    n = len(data)
    limit = LINES_BASE + LINES_PER_BYTE * n
    m = B.Meter(limit)
    st, _ = m.run(MSG.parseMessage, data, [])
    if st in ('budget', 'memory'):
        raise StepBudgetExceeded('parseMessage %s after %d lines for %d bytes' % (st, m.count, n))
    p = P.BasicDBusProtocol()
    p.transport = N.FakeTransport()
    p._receivedFDs = []
    p._authenticated = True
    m = B.Meter(limit)
    st, _ = m.run(p.dataReceived, data)
    if st in ('budget', 'memory'):
        raise StepBudgetExceeded('dataReceived %s after %d lines for %d bytes' % (st, m.count, n))


def main():
    atheris.Setup(sys.argv, one_input)
    atheris.Fuzz()


if __name__ == '__main__':
    main()
