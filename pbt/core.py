"""Case / discrepancy types, exception bucketing, known-finding file, replay I/O."""
import hashlib
import json
import os
import sys
import traceback

VERIF_DIR = os.path.dirname(os.path.dirname(os.path.abspath(__file__)))
REPO_DIR = os.environ.get('VERIF_REPO', '/repo')


class Disc:
    """One observed disagreement between txdbus and the oracle."""
    __slots__ = ('key', 'detail')

    def __init__(self, key, detail=''):
        self.key = key
        self.detail = str(detail)[:1500]

    def __repr__(self):
        return 'Disc(%s: %s)' % (self.key, self.detail[:200])


class Subcheck:
    """
    name       : short id, part of every discrepancy key
    run        : case -> list[Disc]
    classify   : case -> (nontrivial: bool, labels: iterable[str])
    strategy   : tier -> hypothesis strategy of JSON-able cases   (or None)
    enumerate  : tier -> iterable of cases, a finite space covered completely (or None)
    n          : {'quick': int, 'thorough': int} examples per shard for `strategy`
    shards     : {'quick': int, 'thorough': int}
    """

    def __init__(self, name, run, classify, strategy=None, enumerate=None,
                 n=None, shards=None, exhaustive_note=None):
        self.name = name
        self.run = run
        self.classify = classify
        self.strategy = strategy
        self.enumerate = enumerate
        self.n = n or {'quick': 300, 'thorough': 3000}
        self.shards = shards or {'quick': 4, 'thorough': 16}
        self.exhaustive_note = exhaustive_note


def canon(case):
    return json.dumps(case, sort_keys=True, separators=(',', ':'), ensure_ascii=True, default=str)


def case_hash(case):
    return hashlib.blake2b(canon(case).encode(), digest_size=8).hexdigest()


class HarnessError(Exception):
    pass


def exc_key(exc, prefix='exc'):
    """Bucket an unexpected exception by (type, innermost txdbus frame)."""
    tb = traceback.extract_tb(exc.__traceback__)
    where = '?'
    for fr in tb:
        fn = fr.filename.replace('\\', '/')
        if '/txdbus/' in fn and '/verif/' not in fn:
            where = '%s:%s' % (os.path.basename(fn), fr.name)
    if where == '?' and type(exc).__name__ not in ('RefError', 'RigFailure'):
        # no txdbus frame anywhere in the traceback: the harness itself is broken.  That is exit 2, never a VIOLATION.
        raise HarnessError('exception outside txdbus while checking (%s): %s' % (prefix, exc_detail(exc))) from exc
    return '%s:%s@%s' % (prefix, type(exc).__name__, where)


def exc_detail(exc):
    return ''.join(traceback.format_exception(type(exc), exc, exc.__traceback__))[-1400:]


# ---------------------------------------------------------------------------
# known findings

class Finding:
    def __init__(self, status, prop, key=None, probe=None, text='', commit=None):
        self.status = status
        self.prop = prop
        self.key = key
        self.probe = probe
        self.text = text
        self.commit = commit


def load_findings(path=None):
    path = path or os.path.join(VERIF_DIR, 'KNOWN_FINDINGS.txt')
    out = []
    if not os.path.exists(path):
        return out
    for line in open(path, encoding='utf-8'):
        line = line.strip()
        if not line or line.startswith('#'):
            continue
        if line.startswith('open:'):
            head, _, text = line[5:].partition('::')
            kv = dict(p.split('=', 1) for p in head.split() if '=' in p)
            out.append(Finding('open', kv['property'], kv.get('key'), kv.get('probe'), text.strip()))
        elif line.startswith('fixed:'):
            parts = line[6:].split(None, 2)
            kv = dict(p.split('=', 1) for p in parts[:1])
            out.append(Finding('fixed', kv['property'], commit=parts[1] if len(parts) > 1 else None,
                               text=parts[2] if len(parts) > 2 else ''))
    return out


# ---------------------------------------------------------------------------
# replay files

def write_replay(prop, subcheck, case, key, detail, directory=None):
    directory = directory or os.path.join(VERIF_DIR, 'replays')
    os.makedirs(directory, exist_ok=True)
    h = hashlib.blake2b((subcheck + '|' + key).encode(), digest_size=6).hexdigest()
    path = os.path.join(directory, '%s-%s-%s.json' % (prop, subcheck, h))
    with open(path, 'w', encoding='utf-8') as f:
        rec = {'property': prop, 'subcheck': subcheck, 'key': key, 'detail': detail, 'case': case}
        if sys.flags.optimize:
            rec['python_optimize'] = True       # found (and to be replayed) in the second pass's interpreter: -O, ...
            rec['seed'] = int(os.environ.get('VERIF_SEED', '1') or 1)     # ... ASCII locale, hash seed 1000 + seed
        json.dump(rec, f, indent=1, sort_keys=True, default=str)
    return path


def read_replay(path):
    with open(path, encoding='utf-8') as f:
        return json.load(f)
