"""C12 -- a signal reaches exactly the matching callbacks (DESIGN.md section 3, C12)."""
import functools

from hypothesis import strategies as st

from .. import refcodec as R
from .. import simnet as N
from .. import strategies as S
from ..core import Disc, Subcheck, exc_detail, exc_key

PROPERTY_ID = 'C12'
LEVEL = 'exploration'
RULE = ('In every second router / client case the even-numbered rules register one shared bound method, which must run once per matching rule. router: histories of add-rule / remove-rule / deliver-message on MessageRouter; rules constrain any subset of type, '
        'interface, member, path, path_namespace, destination, argN, argNpath with values drawn from small pools built to '
        'contain matches, near-misses on a single key and sibling paths sharing a textual prefix (/a/b vs /a/bc), argument '
        'paths with and without trailing slash on either side; messages of all four types with bodies that are absent, too '
        'short or non-string at the constrained index; raising callbacks raise RuntimeError, a BaseException subclass, SystemExit or GeneratorExit; '
        'one rule may constrain some arguments by value and others as '
        'paths; half of the messages are derived from one of the rules (satisfying all of it) with at most one '
        'constrained place perturbed; some callbacks raise. oracle: an independent matcher coded from the '
        'statement; after every delivery the multiset of invoked callbacks equals the active matching rules, once each. '
        'client: the same through DBusClientConnection.addMatch/delMatch on an in-memory connection - the AddMatch / '
        'RemoveMatch calls are captured, their rule text parsed by the reference match-rule parser must express exactly the '
        'requested constraints, delivery goes through real signal messages. proxy: RemoteDBusObject.notifyOnSignal / '
        'cancelSignalNotification with matching and mismatching signal signatures, optionally next to a second connection '
        'of the same process whose proxy holds and cancels subscriptions with the same rule ids. busrule: the rule text given to '
        'Bus.dbus_AddMatch and then matched by the bus router. Non-trivial = a near-miss on exactly one key, a '
        'prefix-sharing sibling path, or a removal between two deliveries; distinct = distinct case JSON. Callbacks return None / True / '
        'a string / 1 / False / a fired Deferred by turns: what a callback returns has no influence on the other rules. On the client '
        'side the bus refuses the first AddMatch of every fifth rule: addMatch fails and that callback is never invoked. Rule values '
        'include apostrophes and commas. Every third callback is a bound method of an object only the subscription keeps alive. '
        'Container-typed arguments stand next to matched ones; the lists given as arg= / arg_path= are emptied or overwritten by '
        'the caller right after the call (client side: while AddMatch is still unanswered).')
ASSUMPTIONS = ['sender and arg0namespace are not in the statement and are never constrained',
               'rule values contain no apostrophe or comma (escaping is outside the statement)',
               'callbacks do not mutate the rule set while a message is being routed']

PATHS = ['/a/b', '/a/bc', '/a/b/c', '/a', '/', '/x', '/a/b_c']
NAMESPACES = ['/a/b', '/a', '/', '/a/bc', '/x/y']
IFACES = ['org.verif.A', 'org.verif.B', 'org.verif.AB']
MEMBERS = ['Sig', 'Sig2', 'Si']
DESTS = [':1.5', 'org.verif.D', ':1.6']
ARGVALS = ['x', 'y', '', '/a/', '/a/b', '/a/b/', '/a/bc', '/a', 'xy', '1', '2',     # '1', '2': the text of integer arguments
           'C:\\t\\new', 'col1\tcol2', 'k=v',     # backslashes, a tab, an equals sign: literal inside the quotes of a rule
           "it's", 'a,b', "'", "say 'hi', ok"]       # apostrophes (escaped as '\\'' in a rule) and commas (literal inside quotes)
TYPES = ['signal', 'method_call', 'method_return', 'error']


class _CallableObject:
    def __init__(self, fn):
        self.fn = fn

    def __call__(self, m):
        return self.fn(m)


class _Subscriber:
    """A subscriber object nobody but the subscription refers to: `conn.addMatch(Watcher(...).on_message, ...)`."""

    def __init__(self, fn):
        self.fn = fn

    def on_message(self, m):
        return self.fn(m)


def _cb_result(idx):
    from twisted.internet import defer
    k = idx % 6
    if k == 5:
        return defer.succeed(idx)
    return [None, True, 'handled', 1, False][k]


def _shared_group(case, raises_ok=False):
    """One application handler subscribed through SEVERAL rules (`conn.addMatch(self.on_signal, ...)` called more than
    once): in every second case the even-numbered rules all register the same method of one object - each time a freshly
    obtained bound method, equal to the others.  It then has to run once per matching rule, like any other callback."""
    if len(case['ops']) % 2 == 0:
        return set()
    return {i for i, r in enumerate(case['rules']) if i % 2 == 0 and (raises_ok or not r.get('raises'))}


def _judge_shared(out, prefix, group, active, hits, rules, ab, oracle_rule):
    if not group:
        return
    want = sum(1 for i in group if i in active and R.rule_matches(oracle_rule(rules[i]), ab))
    got = hits.count('S')
    if got != want:
        out.append(Disc('%s.shared-callable:%s' % (prefix, 'missed' if got < want else 'extra'),
                        'rules %r share one callable; message %r matches %d of the active ones, the callable ran %d times' % (
                            [rules[i] for i in sorted(group) if i in active], ab, want, got)))


class _Quit(BaseException):
    """What a callback raises when it is not an Exception (compare SystemExit, KeyboardInterrupt, CancelledError)."""


def _mk_message(MSG, m):
    """Abstract message -> txdbus message object as a receiver sees it (parsed from reference bytes)."""
    fields = {}
    t = m['type']
    if t in (1, 4):
        fields[1] = m['path']
        fields[3] = m['member']
    if m.get('interface') is not None and t in (1, 4):
        fields[2] = m['interface']
    if t in (2, 3):
        fields[5] = 9
    if t == 3:
        fields[4] = 'org.verif.Err'
    if m.get('destination') is not None:
        fields[6] = m['destination']
    fields[7] = ':1.9'
    raw = R.encode_message(t, 77, fields, m['sig'], m['trees'], little=m.get('little', True))
    msg = MSG.parseMessage(raw, [])
    msg.rawMessage = raw      # what a connection forwarding this message would write
    return msg


def _abstract_for_oracle(m):
    t = m['type']
    return {'type': t, 'interface': m.get('interface') if t in (1, 4) else None,
            'member': m['member'] if t in (1, 4) else None, 'path': m['path'] if t in (1, 4) else None,
            'destination': m.get('destination'),
            'body': S.normal_forms(m['sig'], m['trees']) if m['sig'] else None}


def _rule_for_oracle(r):
    return {'type': r.get('type'), 'interface': r.get('interface'), 'member': r.get('member'), 'path': r.get('path'),
            'path_namespace': r.get('path_namespace'), 'destination': r.get('destination'),
            'args': {i: v for i, v in r.get('args') or []}, 'arg_paths': {i: v for i, v in r.get('arg_paths') or []}}


def _router_kwargs(r):
    return dict(mtype=r.get('type'), interface=r.get('interface'), member=r.get('member'), path=r.get('path'),
                path_namespace=r.get('path_namespace'), destination=r.get('destination'),
                args=[tuple(x) for x in r['args']] if r.get('args') else None,
                arg_paths=[tuple(x) for x in r['arg_paths']] if r.get('arg_paths') else None)


def _reuse_lists(kw, idx):
    """The lists handed over as arg= / arg_path= are the caller's own: it goes on using them (here: empties them, or fills in
    something else) once the rule is registered - the rule is what was asked for at registration."""
    for key in ('args', 'arg_paths'):
        if kw.get(key):
            if idx % 2:
                del kw[key][:]
            else:
                kw[key][:] = [(0, 'something/else/')]


def _near_miss_key(rule, msg):
    """Which single constraint (if exactly one) keeps the rule from matching."""
    ro = _rule_for_oracle(rule)
    if R.rule_matches(ro, msg):
        return None
    failing = []
    for k in ('type', 'interface', 'member', 'path', 'path_namespace', 'destination'):
        if ro.get(k) is not None and not R.rule_matches({k: ro[k]}, msg):
            failing.append(k)
    for i, v in ro['args'].items():
        if not R.rule_matches({'args': {i: v}}, msg):
            failing.append('arg')
    for i, v in ro['arg_paths'].items():
        if not R.rule_matches({'arg_paths': {i: v}}, msg):
            failing.append('argpath')
    return failing[0] if len(failing) == 1 else False


def run_router(case):
    from txdbus import message as MSG
    from txdbus import router as RT
    rt = RT.MessageRouter()
    out = []
    active = {}    # rule index -> router id
    hits = []
    rules = case['rules']
    group = _shared_group(case)
    shared = _Subscriber(lambda m: hits.append('S'))
    try:
        for opi, op in enumerate(case['ops']):
            if op[0] == 'add':
                idx = op[1] % len(rules)
                if idx in active:
                    continue
                r = rules[idx]

                def cb(m, idx=idx, r=r):
                    hits.append(idx)
                    if r.get('raises'):
                        # user callbacks fail in every way Python offers, not only with Exception subclasses
                        raise {1: RuntimeError, 2: _Quit, 3: SystemExit, 4: GeneratorExit, 5: StopIteration}.get(
                            int(r['raises']), RuntimeError)('callback %d raises' % idx)
                    # what a callback RETURNS is nobody's business: truthy, falsy, a Deferred - delivery to the other
                    # rules does not depend on it
                    return _cb_result(idx)
                if idx % 3 == 2:
                    cb = _Subscriber(cb).on_message      # a bound method of an object only the subscription keeps alive
                elif idx % 3 == 1:
                    cb = functools.partial(cb)           # a callable without __name__ / __qualname__
                elif r.get('raises'):
                    cb = _CallableObject(cb)             # an instance with __call__ (no __name__ either)
                if idx in group:
                    cb = shared.on_message
                kw = _router_kwargs(r)
                active[idx] = rt.addMatch(cb, **kw)
                _reuse_lists(kw, idx)
            elif op[0] == 'remove':
                if active:
                    idx = sorted(active)[op[1] % len(active)]
                    rt.delMatch(active.pop(idx))
            else:
                m = case['msgs'][op[1] % len(case['msgs'])]
                msg = _mk_message(MSG, m)
                del hits[:]
                try:
                    rt.routeMessage(msg)
                except (Exception, _Quit, SystemExit, GeneratorExit) as e:
                    out.append(Disc('router.raises:%s' % type(e).__name__, exc_detail(e)))
                    break
                ab = _abstract_for_oracle(m)
                _judge_shared(out, 'router', group, active, hits, rules, ab, _rule_for_oracle)
                for idx in sorted(set(list(active) + hits) - group - {'S'}):
                    want = 1 if (idx in active and R.rule_matches(_rule_for_oracle(rules[idx]), ab)) else 0
                    got = hits.count(idx)
                    if got != want:
                        nm = _near_miss_key(rules[idx], ab) if idx in active else 'removed'
                        out.append(Disc('router.%s:%s' % ('missed' if got < want else ('twice' if want else 'spurious'),
                                                           nm if nm else ('several' if nm is False else 'match')),
                                        'op %d: rule %r active=%r message %r: callback ran %d times, expected %d' % (
                                            opi, rules[idx], idx in active, ab, got, want)))
                if out:
                    break
    except Exception as e:
        out.append(Disc(exc_key(e, 'router.exception'), exc_detail(e)))
    return out


def classify_router(case):
    labels = []
    keys = [repr(sorted((k, repr(v)) for k, v in r.items() if k not in ('raises', 'refuse_first'))) for r in case['rules']]
    if len(set(keys)) != len(keys):
        labels.append('identical_rules')
    if len(_shared_group(case)) >= 2:
        labels.append('one_callable_under_several_rules')
    if len(case['rules']) % 2 == 0:
        labels.append('addmatch_acknowledged_late_and_out_of_order(client)')
    if any(r.get('refuse_first') for r in case['rules']):
        labels.append('addmatch_refused_once')
    nt = False
    active = set()
    delivered = False
    removed_between = False
    rules = case['rules']
    for op in case['ops']:
        if op[0] == 'add':
            active.add(op[1] % len(rules))
        elif op[0] == 'remove':
            if active:
                active.discard(sorted(active)[op[1] % len(active)])
                if delivered:
                    removed_between = True
        else:
            ab = _abstract_for_oracle(case['msgs'][op[1] % len(case['msgs'])])
            if removed_between:
                nt = True
                labels.append('removal_between_deliveries')
            delivered = True
            for idx in active:
                nm = _near_miss_key(rules[idx], ab)
                if nm is None:
                    labels.append('match')
                elif nm:
                    nt = True
                    labels.append('near_miss_' + nm)
    return nt, sorted(set(labels))


@st.composite
def rule(draw):
    r = {}
    if draw(st.integers(0, 2)) == 0:
        r['type'] = draw(st.sampled_from(TYPES + ['signal', 'signal']))
    if draw(st.booleans()):
        r['interface'] = draw(st.sampled_from(IFACES))
    if draw(st.booleans()):
        r['member'] = draw(st.sampled_from(MEMBERS))
    k = draw(st.integers(0, 3))
    if k == 0:
        r['path'] = draw(st.sampled_from(PATHS))
    elif k == 1:
        r['path_namespace'] = draw(st.sampled_from(NAMESPACES))
    if draw(st.integers(0, 4)) == 0:
        r['destination'] = draw(st.sampled_from(DESTS))
    k = draw(st.integers(0, 4))
    used = set()
    if k in (0, 2):
        r['args'] = [[draw(st.sampled_from([0, 0, 1, 2, 10, 11])), draw(st.sampled_from(ARGVALS + ['1', '2', '1']))]]
        if draw(st.integers(0, 3)) == 0:
            r['args'].append([(r['args'][0][0] + 1) % 12, draw(st.sampled_from(ARGVALS))])
        used = {i for i, _ in r['args']}
    if k in (1, 2):
        # value and path constraints may sit side by side in one rule (on different arguments)
        idx = draw(st.sampled_from([i for i in (0, 0, 1, 2, 3, 10) if i not in used]))
        r['arg_paths'] = [[idx, draw(st.sampled_from([v for v in ARGVALS if v]))]]
        if draw(st.integers(0, 4)) == 0:
            r['arg_paths'].append([[i for i in (4, 5, 6) if i not in used][0], draw(st.sampled_from([v for v in ARGVALS if v]))])
    r['raises'] = draw(st.sampled_from([0, 0, 0, 0, 0, 0, 1, 1, 2, 3, 4, 5]))
    return r


@st.composite
def message_near(draw, r, types):
    """A message built to satisfy every constraint of rule `r`, then (usually) changed in exactly one constrained place."""
    tnum = {'method_call': 1, 'method_return': 2, 'error': 3, 'signal': 4}
    t = tnum[r['type']] if r.get('type') else draw(st.sampled_from(list(types)))
    if t not in types:
        t = draw(st.sampled_from(list(types)))
    path = r.get('path') or (draw(st.sampled_from([q for q in PATHS if q == r['path_namespace'] or
                                                     q.startswith(r['path_namespace'].rstrip('/') + '/')] or
                                                    [r['path_namespace']]))
                             if r.get('path_namespace') else draw(st.sampled_from(PATHS)))
    m = {'type': t, 'path': path, 'interface': r.get('interface') or draw(st.sampled_from(IFACES)),
         'member': r.get('member') or draw(st.sampled_from(MEMBERS)),
         'destination': r.get('destination') or draw(st.sampled_from(DESTS + [None, None])),
         'little': draw(st.booleans())}
    want = {}
    for i, v in r.get('args') or []:
        want[i] = ('s', v)
    for i, v in r.get('arg_paths') or []:
        want[i] = ('s', v)
    n = (max(want) + 1) if want else draw(st.sampled_from([0, 1, 2]))
    sig, trees = [], []         # sig: one complete type per ARGUMENT (joined at the end)
    for i in range(n):
        if i in want:
            sig.append('s')
            trees.append(want[i][1])
        else:
            # (container-typed arguments make signature positions and argument indices drift apart)
            k = draw(st.sampled_from(['s', 's', 'i', 'o', 'ai', 'a{su}', '(ii)', 'as']))
            sig.append(k)
            trees.append(draw(st.sampled_from(ARGVALS)) if k == 's' else draw(st.sampled_from(PATHS)) if k == 'o'
                         else draw(st.integers(0, 3)) if k == 'i'
                         else {'ai': [1, 2], 'a{su}': [['k', 1]], '(ii)': [1, 2], 'as': ['x']}[k])
    # one perturbation in a constrained place (or none: a full match)
    keys = [k for k in ('type', 'interface', 'member', 'path', 'path_namespace', 'destination') if r.get(k)]
    keys += ['arg:%d' % i for i in want]
    keys.append(None)
    k = draw(st.sampled_from(keys))
    if k == 'type':
        m['type'] = draw(st.sampled_from(list(types)))
    elif k == 'interface':
        m['interface'] = draw(st.sampled_from(IFACES))
    elif k == 'member':
        m['member'] = draw(st.sampled_from(MEMBERS))
    elif k in ('path', 'path_namespace'):
        m['path'] = draw(st.sampled_from(PATHS))
    elif k == 'destination':
        m['destination'] = draw(st.sampled_from(DESTS + [None]))
    elif k is not None:
        i = int(k[4:])
        how = draw(st.sampled_from(['int', 'int', 'value', 'short'] if want[i][1].isdigit() else
                                   ['value', 'value', 'value', 'int', 'short']))
        if how == 'value':
            trees[i] = draw(st.sampled_from(ARGVALS))
        elif how == 'int':
            # an integer where the rule wants a string - if possible the integer whose text IS that string
            sig[i] = 'i'
            trees[i] = int(want[i][1]) if want[i][1].isdigit() else 1
        else:
            sig, trees = sig[:i], trees[:i]
    m['sig'], m['trees'] = ''.join(sig), trees
    return m


@st.composite
def message(draw, types=(4, 4, 4, 4, 1, 2, 3)):
    t = draw(st.sampled_from(list(types)))
    n = draw(st.sampled_from([0, 1, 2, 3, 3, 11, 12]))
    sig = ''
    trees = []
    for _ in range(n):
        k = draw(st.sampled_from(['s', 's', 's', 'o', 'i', 'as', 'a{su}', '(ii)']))
        sig += k
        if k in ('a{su}', '(ii)'):
            trees.append([['k', 1]] if k == 'a{su}' else [1, 2])
        elif k == 's':
            trees.append(draw(st.sampled_from(ARGVALS)))
        elif k == 'o':
            trees.append(draw(st.sampled_from(PATHS)))
        elif k == 'i':
            trees.append(draw(st.integers(0, 3)))
        else:
            trees.append([draw(st.sampled_from(ARGVALS))])
    return {'type': t, 'path': draw(st.sampled_from(PATHS)), 'interface': draw(st.sampled_from(IFACES)),
            'member': draw(st.sampled_from(MEMBERS)),
            'destination': draw(st.sampled_from(DESTS + [None, None, None])), 'sig': sig, 'trees': trees,
            'little': draw(st.booleans())}


@st.composite
def router_case(draw, tier, types=(4, 4, 4, 4, 1, 2, 3)):
    rules = [draw(rule()) for _ in range(draw(st.integers(1, 6)))]
    if draw(st.integers(0, 2)) == 0:
        # the same constraints registered twice are two subscriptions: both fire, and removing one leaves the other
        rules.append(dict(rules[draw(st.integers(0, len(rules) - 1))]))
    msgs = []
    for _ in range(draw(st.integers(1, 4))):
        if draw(st.booleans()):
            msgs.append(draw(message(types)))
        else:
            msgs.append(draw(message_near(rules[draw(st.integers(0, len(rules) - 1))], tuple(types))))
    for r in rules:
        if draw(st.integers(0, 4)) == 0:
            r['refuse_first'] = True      # (client side only) the bus answers the first AddMatch for this rule with an error
    ops = [['add', i] for i in range(len(rules))]
    for _ in range(draw(st.integers(1, 10))):
        k = draw(st.sampled_from(['msg', 'msg', 'msg', 'remove', 'add']))
        ops.append([k, draw(st.integers(0, 10))])
    return {'rules': rules, 'msgs': msgs, 'ops': ops}


# --------------------------------------------------------------------------
# through the client connection

def _expected_text_constraints(r):
    want = {}
    for k in ('type', 'interface', 'member', 'path', 'path_namespace', 'destination'):
        if r.get(k) is not None:
            want[k] = r[k]
    for i, v in r.get('args') or []:
        want['arg%d' % i] = v
    for i, v in r.get('arg_paths') or []:
        want['arg%dpath' % i] = v
    return want


def run_client(case):
    try:
        rig = N.ClientRig(unix=False)
    except N.RigFailure as e:
        return [Disc('client.establish-failed', str(e))]
    out = []
    rules = case['rules']
    active = {}     # idx -> (rule_id, text)
    hits = []
    refused_once = set()
    group = _shared_group(case, raises_ok=True)
    shared = _Subscriber(lambda m: hits.append('S'))
    late_acks = len(case['rules']) % 2 == 0
    waiting = []

    def flush():
        # the outstanding AddMatch calls are answered, the latest first
        while waiting:
            idx, serial, text, res, opi = waiting.pop()
            N.deliver(rig.conn, R.encode_message(2, 500 + opi, {5: serial}))
            if len(res) != 1 or not isinstance(res[0], int):
                out.append(Disc('client.addmatch-result', repr(res)))
                return False
            active[idx] = (res[0], text)
        return True
    try:
        rig.sent_messages()
        for opi, op in enumerate(case['ops']):
            if op[0] == 'add':
                idx = op[1] % len(rules)
                if idx in active or any(w[0] == idx for w in waiting):
                    continue
                r = rules[idx]

                def cb(m, idx=idx):
                    hits.append(idx)
                    return _cb_result(idx + 1)
                if idx % 3 == 1:
                    cb = _Subscriber(cb).on_message      # a bound method of an object only the subscription keeps alive
                if idx in group:
                    cb = shared.on_message
                kw = _router_kwargs(r)
                d = rig.conn.addMatch(cb, mtype=kw['mtype'], interface=kw['interface'], member=kw['member'],
                                      path=kw['path'], path_namespace=kw['path_namespace'],
                                      destination=kw['destination'], arg=kw['args'], arg_path=kw['arg_paths'])
                _reuse_lists(kw, idx)       # ... while the AddMatch call is still on its way to the bus
                res = []
                d.addBoth(res.append)
                sent = [m for k, m in rig.sent_messages() if k == 'msg']
                if len(sent) != 1 or sent[0]['fields'].get(3) != 'AddMatch' or sent[0]['body_sig'] != 's' or \
                        sent[0]['fields'].get(6) != 'org.freedesktop.DBus':
                    out.append(Disc('client.addmatch-call', repr([(m['fields'], m['body']) for m in sent])))
                    break
                text = sent[0]['body'][0]
                try:
                    got = dict(R.parse_match_rule(text))
                except R.RefError as e:
                    out.append(Disc('client.rule-text-unparseable', '%r: %s' % (text, e)))
                    break
                want = _expected_text_constraints(r)
                if got != want:
                    out.append(Disc('client.rule-text', 'requested %r, rule text %r expresses %r' % (want, text, got)))
                if r.get('refuse_first') and idx not in refused_once:
                    refused_once.add(idx)
                    # the bus REFUSES the rule (its limits, its own reading of the text): addMatch fails, so this callback
                    # was never registered and no signal may reach it
                    N.deliver(rig.conn, R.encode_variant(opi, 3, 500 + opi, {5: sent[0]['serial'],
                                                                             4: 'org.freedesktop.DBus.Error.LimitsExceeded'},
                                                         's', ['too many rules']))
                    if len(res) != 1 or isinstance(res[0], int):
                        out.append(Disc('client.addmatch-refused-but-result', repr(res)))
                        break
                    continue
                if late_acks:
                    # the bus has not answered yet: replies are matched by reply serial, not by arrival order, and a bus (or
                    # a proxy in front of it) may answer a later AddMatch first
                    waiting.append((idx, sent[0]['serial'], text, res, opi))
                    if len(waiting) >= 3 and not flush():
                        break
                    continue
                N.deliver(rig.conn, R.encode_message(2, 500 + opi, {5: sent[0]['serial']}))
                if len(res) != 1 or not isinstance(res[0], int):
                    out.append(Disc('client.addmatch-result', repr(res)))
                    break
                active[idx] = (res[0], text)
            elif not flush():
                break
            elif op[0] == 'remove':
                if not active:
                    continue
                idx = sorted(active)[op[1] % len(active)]
                rid, text = active.pop(idx)
                d = rig.conn.delMatch(rid)
                res = []
                d.addBoth(res.append)
                sent = [m for k, m in rig.sent_messages() if k == 'msg']
                if len(sent) != 1 or sent[0]['fields'].get(3) != 'RemoveMatch' or sent[0]['body'] != [text]:
                    out.append(Disc('client.removematch-call', 'expected RemoveMatch(%r), wrote %r' % (
                        text, [(m['fields'].get(3), m['body']) for m in sent])))
                    break
                N.deliver(rig.conn, R.encode_message(2, 500 + opi, {5: sent[0]['serial']}))
            else:
                m = case['msgs'][op[1] % len(case['msgs'])]
                fields = {1: m['path'], 2: m['interface'], 3: m['member'], 7: ':1.9'}
                if m.get('destination') is not None:
                    fields[6] = m['destination']
                del hits[:]
                N.deliver(rig.conn, R.encode_message(4, 600 + opi, fields, m['sig'], m['trees'],
                                                     little=m.get('little', True)))
                if rig.transport.disconnected:
                    out.append(Disc('client.signal-dropped-connection', repr(m)))
                    break
                ab = _abstract_for_oracle(dict(m, type=4))
                _judge_shared(out, 'client', group, active, hits, rules, ab, _rule_for_oracle)
                for idx in sorted(set(list(active) + hits) - group - {'S'}):
                    want = 1 if (idx in active and R.rule_matches(_rule_for_oracle(rules[idx]), ab)) else 0
                    got = hits.count(idx)
                    if got != want:
                        nm = _near_miss_key(rules[idx], ab) if idx in active else 'removed'
                        out.append(Disc('client.%s:%s' % ('missed' if got < want else ('twice' if want else 'spurious'),
                                                           nm if nm else ('several' if nm is False else 'match')),
                                        'rule %r message %r: callback ran %d times, expected %d' % (
                                            rules[idx], ab, got, want)))
                if out:
                    break
    except Exception as e:
        out.append(Disc(exc_key(e, 'client.exception'), exc_detail(e)))
    finally:
        rig.close_rig()
    return out


# --------------------------------------------------------------------------
# proxies

def run_proxy(case):
    from txdbus import interface as I
    rig2 = None
    try:
        rig = N.ClientRig(unix=False)
    except N.RigFailure as e:
        return [Disc('proxy.establish-failed', str(e))]
    out = []
    try:
        sigs = case['signals']      # name -> declared signature
        ia = I.DBusInterface('org.verif.A', *[I.Signal(n, s) for n, s in sigs['org.verif.A'].items()], noRegister=True)
        ib = I.DBusInterface('org.verif.B', *[I.Signal(n, s) for n, s in sigs['org.verif.B'].items()], noRegister=True)
        res = []
        rig.conn.getRemoteObject('org.verif.Peer', case['path'], [ia, ib]).addBoth(res.append)
        prox = res[0]
        rig.sent_messages()
        shadow = []
        if case.get('shadow'):
            # a second connection of the same process subscribes through its own proxy (its rule ids start at the same
            # number); what it does with its subscriptions is no business of the first connection's
            rig2 = N.ClientRig(unix=False)
            res2 = []
            rig2.conn.getRemoteObject('org.verif.Peer', case['path'], [ia, ib]).addBoth(res2.append)
            prox2 = res2[0]
            rig2.sent_messages()
            for k in range(3):
                name2 = sorted(sigs['org.verif.A'])[k % len(sigs['org.verif.A'])]
                r2 = []
                prox2.notifyOnSignal(name2, lambda *a: None, interface='org.verif.A').addBoth(r2.append)
                sent2 = [m for kk, m in rig2.sent_messages() if kk == 'msg']
                if sent2:
                    N.deliver(rig2.conn, R.encode_message(2, 600 + k, {5: sent2[0]['serial']}))
                if r2 and not hasattr(r2[0], 'check'):
                    shadow.append(r2[0])
        subs = {}   # sub index -> dict
        for opi, op in enumerate(case['ops']):
            if op[0] == 'unsub' and shadow:
                for rid in shadow:
                    prox2.cancelSignalNotification(rid)
                    for kk, m in rig2.sent_messages():
                        if kk == 'msg':
                            N.deliver(rig2.conn, R.encode_message(2, 650, {5: m['serial']}))
                shadow = []
            if op[0] == 'sub':
                name = op[1]
                iface = op[2]
                s = {'hits': [], 'name': name, 'iface': iface, 'active': True}
                declared = any(name in sigs[i] for i in sigs if iface in (None, i))
                try:
                    d = prox.notifyOnSignal(name, lambda *a, s=s: s['hits'].append(list(a)), interface=iface)
                except AttributeError:
                    if declared:
                        out.append(Disc('proxy.declared-signal-refused', repr(op)))
                    continue
                if not declared:
                    out.append(Disc('proxy.undeclared-signal-accepted', 'notifyOnSignal(%r, interface=%r) did not fail' % (name, iface)))
                    break
                r = []
                d.addBoth(r.append)
                sent = [m for k, m in rig.sent_messages() if k == 'msg']
                if len(sent) != 1 or sent[0]['fields'].get(3) != 'AddMatch':
                    out.append(Disc('proxy.addmatch-call', repr(sent)))
                    break
                got = dict(R.parse_match_rule(sent[0]['body'][0]))
                s['ifname'] = iface or [i for i in ('org.verif.A', 'org.verif.B') if name in sigs[i]][0]
                want = {'type': 'signal', 'path': case['path'], 'member': name, 'interface': s['ifname']}
                if got != want:
                    out.append(Disc('proxy.rule-text', 'expected %r got %r' % (want, got)))
                N.deliver(rig.conn, R.encode_message(2, 700 + opi, {5: sent[0]['serial']}))
                s['rid'] = r[0]
                subs[len(subs)] = s
            elif op[0] == 'unsub':
                live = [k for k, s in subs.items() if s['active']]
                if live:
                    s = subs[live[op[1] % len(live)]]
                    prox.cancelSignalNotification(s['rid'])
                    s['active'] = False
                    sent = [m for k, m in rig.sent_messages() if k == 'msg']
                    if len(sent) != 1 or sent[0]['fields'].get(3) != 'RemoveMatch':
                        out.append(Disc('proxy.removematch-call', repr(sent)))
                        break
                    N.deliver(rig.conn, R.encode_message(2, 700 + opi, {5: sent[0]['serial']}))
            else:
                m = op[1]
                for s in subs.values():
                    del s['hits'][:]
                N.deliver(rig.conn, R.encode_message(4, 800 + opi, {1: m['path'], 2: m['interface'], 3: m['member'],
                                                                     7: ':1.9'}, m['sig'], m['trees']))
                for k, s in subs.items():
                    declared = sigs[s['ifname']][s['name']]
                    want = []
                    if s['active'] and m['path'] == case['path'] and m['interface'] == s['ifname'] and \
                            m['member'] == s['name'] and (m['sig'] or '') == (declared or ''):
                        want = [S.normal_forms(m['sig'], m['trees']) if m['sig'] else []]
                    if not R.nf_equal(s['hits'], want):
                        why = 'unsubscribed' if not s['active'] else (
                            'signature' if (m['sig'] or '') != (declared or '') else 'other')
                        out.append(Disc('proxy.delivery:%s' % why, 'subscription %r signal %r: callback got %r expected %r'
                                        % ((s['name'], s['ifname'], declared), m, s['hits'], want)))
                if out:
                    break
    except Exception as e:
        out.append(Disc(exc_key(e, 'proxy.exception'), exc_detail(e)))
    finally:
        if rig2 is not None:
            rig2.close_rig()
        rig.close_rig()
    return out


@st.composite
def proxy_case(draw, tier):
    sigpool = ['', 's', 'i', 'si', 'as']
    sigs = {'org.verif.A': {'Sig': draw(st.sampled_from(sigpool)), 'Sig2': draw(st.sampled_from(sigpool))},
            'org.verif.B': {'Sig': draw(st.sampled_from(sigpool)), 'Other': draw(st.sampled_from(sigpool))}}
    path = draw(st.sampled_from(['/a/b', '/a']))
    ops = []
    for _ in range(draw(st.integers(2, 10))):
        k = draw(st.sampled_from(['sub', 'sub', 'signal', 'signal', 'signal', 'unsub']))
        if k == 'sub':
            ops.append(['sub', draw(st.sampled_from(['Sig', 'Sig2', 'Other', 'Nope'])),
                        draw(st.sampled_from([None, None, 'org.verif.A', 'org.verif.B']))])
        elif k == 'unsub':
            ops.append(['unsub', draw(st.integers(0, 5))])
        else:
            iface = draw(st.sampled_from(['org.verif.A', 'org.verif.B']))
            member = draw(st.sampled_from(['Sig', 'Sig2', 'Other']))
            sig = draw(st.sampled_from(sigpool + [sigs[iface].get(member, '')] * 4))
            trees = [draw(S.tree_for(t, 2)) for t in R.split_inner(sig)]
            ops.append(['signal', {'path': draw(st.sampled_from([path, path, path, '/a/bc', '/a/b/c'])),
                                   'interface': iface, 'member': member, 'sig': sig, 'trees': trees}])
    return {'signals': sigs, 'path': path, 'ops': ops, 'shadow': draw(st.booleans())}


def classify_proxy(case):
    labels = []
    nsig = sum(1 for o in case['ops'] if o[0] == 'signal')
    nsub = sum(1 for o in case['ops'] if o[0] == 'sub')
    if any(o[0] == 'unsub' for o in case['ops']):
        labels.append('unsubscribe')
    for o in case['ops']:
        if o[0] == 'signal':
            m = o[1]
            decl = case['signals'][m['interface']].get(m['member'])
            if decl is not None and decl != m['sig']:
                labels.append('signature_mismatch')
    if case.get('shadow'):
        labels.append('second_connection_in_process')
    return nsig > 0 and nsub > 0, sorted(set(labels))


# --------------------------------------------------------------------------
# the rule text understood by the built-in bus

def run_busrule(case):
    from txdbus import message as MSG
    out = []
    try:
        rig = N.BusRig()
        cli = rig.attach()
        r = case['rules'][0]
        want = _expected_text_constraints(r)
        text = R.format_match_rule(want.items())
        rep = cli.call_bus('AddMatch', 's', [text])
        if rep is None or rep['type'] != 2:
            return [Disc('busrule.addmatch-refused', 'rule %r: %r' % (text, rep and (rep['fields'].get(4), rep['body'])))]
        for m in case['msgs']:
            msg = _mk_message(MSG, m)
            cli.inbox[:] = []
            rig.bus.router.routeMessage(msg)
            got = cli.pump()
            ab = _abstract_for_oracle(m)
            wantn = 1 if R.rule_matches(_rule_for_oracle(r), ab) else 0
            if len(got) != wantn:
                nm = _near_miss_key(r, ab)
                out.append(Disc('busrule.%s:%s' % ('missed' if wantn else 'spurious',
                                                   nm if nm else ('several' if nm is False else 'match')),
                                'rule text %r message %r: delivered %d times, expected %d' % (text, ab, len(got), wantn)))
                break
    except N.RigFailure as e:
        out.append(Disc('busrule.attach-failed', str(e)))
    except Exception as e:
        out.append(Disc(exc_key(e, 'busrule.exception'), exc_detail(e)))
    return out


def classify_busrule(case):
    nt = False
    labels = []
    for m in case['msgs']:
        nm = _near_miss_key(case['rules'][0], _abstract_for_oracle(m))
        if nm is None:
            labels.append('match')
        elif nm:
            nt = True
            labels.append('near_miss_' + nm)
    return nt, sorted(set(labels))


def enum_argidx(tier):
    """Argument indices with one and two digits (the spec allows arg0..arg63)."""
    for kind in ('args', 'arg_paths'):
        for idx in (0, 1, 9, 10, 11, 21, 63):
            msgs = []
            for hot in sorted({idx, int(str(idx)[0]), int(str(idx)[-1]), (idx + 1) % 64}):
                trees = ['/n'] * 64
                trees[hot] = '/hot'
                msgs.append({'type': 4, 'path': '/a', 'interface': 'org.verif.A', 'member': 'Sig', 'destination': None,
                             'sig': 's' * 64, 'trees': trees, 'little': True})
            yield {'rules': [{kind: [[idx, '/hot']], 'raises': False}], 'msgs': msgs,
                   'ops': [['add', 0]] + [['msg', i] for i in range(len(msgs))]}


def run_argidx(case):
    return run_router(case) + run_client(case) + run_busrule(case)


SUBCHECKS = [
    Subcheck('router', run_router, classify_router, strategy=lambda tier: router_case(tier),
             n={'quick': 500, 'thorough': 5000}),
    Subcheck('client', run_client, classify_router, strategy=lambda tier: router_case(tier, types=(4,)),
             n={'quick': 150, 'thorough': 1500}),
    Subcheck('proxy', run_proxy, classify_proxy, strategy=lambda tier: proxy_case(tier),
             n={'quick': 150, 'thorough': 1500}),
    Subcheck('busrule', run_busrule, classify_busrule, strategy=lambda tier: router_case(tier),
             n={'quick': 200, 'thorough': 2000}),
    Subcheck('argidx', run_argidx, classify_router, enumerate=enum_argidx, shards={'quick': 1, 'thorough': 1},
             exhaustive_note='argN / argNpath for N in {0,1,9,10,11,21,63} x messages whose only matching argument sits '
                             'at N, at a digit of N, or next to N; through router, client and bus rule text'),
]
