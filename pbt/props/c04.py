"""C04 -- framing is independent of read segmentation (DESIGN.md section 3, C04)."""
from hypothesis import strategies as st

from .. import refcodec as R
from .. import simnet as N
from .. import strategies as S
from ..core import Disc, Subcheck, exc_detail, exc_key

PROPERTY_ID = 'C04'
LEVEL = 'exploration'
RULE = ('For every second partition the pre-authenticated receiver enters message mode through setAuthenticationSucceeded(). big_header: a 70 000 (300 000)-character object path between two small messages, in one read, in 64 KiB reads and cut '
        'around the big message. '
        'stream = 1..6 generated messages (C03 generator, reference-encoded in mixed byte orders; serials, lengths and '
        'strings forced to contain CR LF) behind one of three receivers: pre-authenticated protocol, server role after '
        'a real AUTH ANONYMOUS/BEGIN handshake, client role after OK <guid>; the handshake bytes are part of the stream '
        'that is partitioned. partitions: random cut sets, one byte per read, everything in one read (random); every '
        'single cut position (cuts1) and every pair of cut positions (cuts2) of short streams, exhaustively per stream; '
        'N=1500 (quick) / 5000 (thorough) minimal replies in one read (coalesce). oracle: the sequence of '
        'method/return/error/signal deliveries equals the sent sequence (type, serial, flags, fields, signature, body) '
        'and no exception escapes dataReceived. Non-trivial = a cut strictly inside a 16-byte fixed header, or two byte '
        'orders in one stream, or >=100 messages in one read, or CR LF in bytes coalesced with the handshake; '
        'distinct = distinct case JSON. Messages may carry unknown header fields, fields of other message types and unknown flag bits '
        '(alone or next to NO_REPLY / NO_AUTO_START).')
ASSUMPTIONS = ['the interpreter recursion limit is left at its default',
               'peer credentials lookup is disabled for the in-memory transport (txdbus.protocol._is_linux=False)']

GUID = b'0123456789abcdef0123456789abcdef'


def _make_receiver(setup, public=False):
    import txdbus.protocol as P
    from txdbus import authentication as A

    class Rec(P.BasicDBusProtocol):
        def __init__(self):
            self.got = []
            self.auth_calls = 0

        def connectionAuthenticated(self):
            self.auth_calls += 1

        def methodCallReceived(self, m):
            self.got.append(m)

        def methodReturnReceived(self, m):
            self.got.append(m)

        def errorReceived(self, m):
            self.got.append(m)

        def signalReceived(self, m):
            self.got.append(m)

    r = Rec()
    r.transport = N.FakeTransport()
    if setup == 'pre':
        r._receivedFDs = []
        if public:
            # a protocol that does its own (or no) handshake enters message mode through the method meant for it:
            # "Called by subclass when the authentication process completes"
            r.setAuthenticationSucceeded()
        else:
            r._authenticated = True
        return r, b''
    P._is_linux = False
    if setup == 'server':
        class _Bus:
            uuid = GUID

        class _Factory:
            bus = _Bus()
        r._client = False
        r.authenticator = A.BusAuthenticator
        r.factory = _Factory()
        r.connectionMade()
        return r, b'\0AUTH ANONYMOUS 74786462\r\nBEGIN\r\n'
    r._client = True
    r.authenticator = A.ClientAuthenticator
    r.connectionMade()
    return r, b'OK ' + GUID + b'\r\n'


def _stream(case):
    if 'coalesce' in case:
        n = case['coalesce']
        parts = []
        for i in range(n):
            little = True if case['orders'] == 'le' else (False if case['orders'] == 'be' else i % 2 == 0)
            parts.append(R.encode_message(2, i + 1, {5: i + 1}, little=little))
        return b''.join(parts)
    assert len(case['msgs']) == len(case['enc']), 'harness: one byte order per message'
    return b''.join(_encode(m, le) for m, le in zip(case['msgs'], case['enc']))


def _encode(m, le):
    extra = [tuple(e) for e in m.get('extra', [])]
    order = m.get('order')
    return S.ref_message_bytes(m, le, order, extra)


def _check(case, chunks, setup):
    r, prefix = _make_receiver(setup, public=(len(chunks) % 2 == 0))
    # chunks partition prefix+stream
    for ch in chunks:
        try:
            r.dataReceived(ch)
        except Exception as e:
            return [Disc(exc_key(e, 'frame.%s.exception' % setup), exc_detail(e))]
    out = []
    if 'coalesce' in case:
        n = case['coalesce']
        if len(r.got) != n:
            out.append(Disc('frame.%s.count' % setup, 'sent %d delivered %d' % (n, len(r.got))))
        else:
            for i, m in enumerate(r.got):
                if m.serial != i + 1 or m.reply_serial != i + 1 or m._messageType != 2:
                    out.append(Disc('frame.%s.content' % setup, 'message %d: serial %r' % (i, m.serial)))
                    break
        return out
    msgs = case['msgs']
    if len(r.got) != len(msgs):
        return [Disc('frame.%s.count' % setup, 'sent %d delivered %d (chunks %r)' % (
            len(msgs), len(r.got), [len(c) for c in chunks][:40]))]
    for i, (m, a) in enumerate(zip(r.got, msgs)):
        if m.serial != a['serial']:
            out.append(Disc('frame.%s.serial' % setup, 'message %d expected %r got %r' % (i, a['serial'], m.serial)))
        for k, det in S.compare_parsed(m, a, None, 'frame.%s' % setup):
            out.append(Disc(k, 'message %d: %s' % (i, det)))
    if setup != 'pre' and r.auth_calls != 1:
        out.append(Disc('frame.%s.auth-calls' % setup, '%d' % r.auth_calls))
    return out


def _prefix_len(setup):
    return {'pre': 0, 'server': len(b'\0AUTH ANONYMOUS 74786462\r\nBEGIN\r\n'),
            'client': len(b'OK ' + GUID + b'\r\n')}[setup]


def _full(case):
    setup = case['setup']
    prefix = {'pre': b'', 'server': b'\0AUTH ANONYMOUS 74786462\r\nBEGIN\r\n',
              'client': b'OK ' + GUID + b'\r\n'}[setup]
    return prefix + _stream(case)


def run_case(case):
    data = _full(case)
    setup = case['setup']
    mode = case['mode']
    if mode == 'cuts':
        return _check(case, N.cut(data, case['cuts']), setup)
    if mode == 'one':
        return _check(case, [data], setup)
    if mode == 'bytewise':
        return _check(case, [data[i:i + 1] for i in range(len(data))], setup)
    if mode == 'split_at_handshake':
        p = _prefix_len(setup)
        return _check(case, N.cut(data, [p]), setup)
    inner = 0
    found = {}
    L = len(data)
    if mode == 'all1':
        for c in range(1, L):
            inner += 1
            for d in _check(case, [data[:c], data[c:]], setup):
                found.setdefault(d.key, Disc(d.key, 'cut at %d: %s' % (c, d.detail)))
    elif mode == 'all2':
        for c1 in range(1, L):
            for c2 in range(c1 + 1, L):
                inner += 1
                for d in _check(case, [data[:c1], data[c1:c2], data[c2:]], setup):
                    found.setdefault(d.key, Disc(d.key, 'cuts at %d,%d: %s' % (c1, c2, d.detail)))
    return list(found.values()), inner


def classify(case):
    labels = [case['setup'], case['mode']]
    if 'coalesce' in case:
        labels.append('coalesce_%s' % case['orders'])
        return True, labels
    data_len = None
    nt = False
    if len(set(case['enc'])) > 1:
        labels.append('mixed_endian')
        nt = True
    stream = _stream(case)
    if case['setup'] != 'pre' and b'\r\n' in stream and case['mode'] in ('one', 'all1', 'all2', 'cuts'):
        labels.append('crlf_in_binary')
        if case['mode'] != 'cuts' or not any(c == _prefix_len(case['setup']) for c in case['cuts']):
            nt = True
    # header starts
    p = _prefix_len(case['setup'])
    starts = []
    off = p
    for m, le in zip(case['msgs'], case['enc']):
        starts.append(off)
        off += len(_encode(m, le))
    data_len = off
    if case['mode'] in ('all1', 'all2', 'bytewise'):
        nt = True
        labels.append('cut_in_fixed_header')
    elif case['mode'] == 'cuts':
        if any(s < c < s + 16 for c in case['cuts'] for s in starts):
            nt = True
            labels.append('cut_in_fixed_header')
    if len(case['msgs']) >= 4:
        labels.append('msgs>=4')
    if any(m.get('extra') for m in case['msgs']):
        labels.append('unknown_header_field')
    if any(m.get('foreign') for m in case['msgs']):
        labels.append('fields_of_other_types')
    if any(m.get('flag_bits') for m in case['msgs']):
        labels.append('unknown_flag_bits')
    if off - p > 60000:
        labels.append('stream>60KB')
    del data_len
    return nt, labels


@st.composite
def crlf_message(draw, depth, big=False):
    m = draw(S.message(body_depth=depth, big=big))
    k = draw(st.integers(0, 3))
    if k == 0:
        m['serial'] = draw(st.sampled_from([0x0a0d, 0x0d0a0000, 0x0d0a0d0a, 0x000a0d00]))
    if k == 1:
        m['sig'] = 's' + m['sig'] if len(m['sig']) < 200 else 's'
        m['trees'] = [draw(st.sampled_from(['\r\n', 'a\r\nb', '\r\n\r\n', 'BEGIN\r\n']))] + (
            m['trees'] if m['sig'] != 's' else [])
    draw(S.wire_only_extras(m))
    if draw(st.integers(0, 5)) == 0:
        # a header field with a code this implementation does not know, at a drawn position among the known ones
        t = draw(st.sampled_from(['s', 'u', 'ay', 'v']))
        m['extra'] = [[draw(st.integers(10, 200)), t, draw(S.tree_for(t))]]
        n = S.n_header_fields(m, 1)
        m['order'] = draw(st.permutations(list(range(n))))
    return m


@st.composite
def random_case(draw, tier):
    n = draw(st.integers(1, 6))
    msgs = [draw(crlf_message(2, big=True)) for _ in range(n)]
    enc = [draw(st.booleans()) for _ in range(n)]
    setup = draw(st.sampled_from(['pre', 'server', 'client']))
    mode = draw(st.sampled_from(['cuts', 'cuts', 'one', 'bytewise', 'split_at_handshake']))
    case = {'setup': setup, 'msgs': msgs, 'enc': enc, 'mode': mode, 'cuts': []}
    if mode == 'bytewise' and len(_full(case)) > 4000:
        mode = case['mode'] = 'cuts'      # one byte per read is quadratic in the buffer: keep it for short streams
    if mode == 'cuts':
        L = len(_full(case))
        k = draw(st.integers(1, 8))
        case['cuts'] = sorted(set(draw(st.lists(st.integers(1, max(1, L - 1)), min_size=k, max_size=k))))
    return case


@st.composite
def short_case(draw, tier, mode, maxlen):
    for _ in range(20):
        n = draw(st.integers(1, 3 if mode == 'all1' else 2))
        msgs = [draw(crlf_message(1)) for _ in range(n)]
        for m in msgs:   # keep streams short: drop optional fields at random is done by the strategy; trim bodies
            if len(m['sig']) > 2:
                m['sig'], m['trees'] = '', []
            if m.get('extra'):      # the header changed: put the unknown field first
                nf = S.n_header_fields(m, 1)
                m['order'] = [nf - 1] + list(range(nf - 1))
        enc = [draw(st.booleans()) for _ in range(n)]
        setup = draw(st.sampled_from(['pre', 'server', 'client']))
        case = {'setup': setup, 'msgs': msgs, 'enc': enc, 'mode': mode, 'cuts': []}
        if len(_full(case)) <= maxlen:
            return case
        msgs = msgs[:1]
        case = {'setup': setup, 'msgs': msgs, 'enc': enc[:1], 'mode': mode, 'cuts': []}
        if len(_full(case)) <= maxlen:
            return case
    m = {'type': 2, 'fields': {'reply_serial': 0x0a0d}, 'sig': '', 'trees': [], 'pres': [], 'no_reply': False,
         'no_auto': False, 'serial': 0x0a0d}
    return {'setup': draw(st.sampled_from(['pre', 'server', 'client'])), 'msgs': [m], 'enc': [True],
            'mode': mode, 'cuts': []}


def enum_coalesce(tier):
    n = 1500 if tier == 'quick' else 5000
    for setup in ('pre', 'server', 'client'):
        for orders in ('le', 'be', 'mixed'):
            yield {'setup': setup, 'coalesce': n, 'orders': orders, 'mode': 'one'}
    yield {'setup': 'pre', 'coalesce': 2730, 'orders': 'le', 'mode': 'one'}   # one 64 KiB socket read


def enum_big_header(tier):
    """A message whose HEADER is big (an object path of 70 000 / 300 000 characters: paths have no length limit of their
    own), between two small ones: in one read, in 64 KiB socket reads, and cut inside its fixed header."""
    def small(serial, member):
        return {'type': 4, 'fields': {'path': '/s', 'interface': 'a.b', 'member': member}, 'sig': 's', 'trees': [member],
                'pres': [], 'no_reply': False, 'no_auto': False, 'serial': serial}
    for plen in ((70000,) if tier == 'quick' else (70000, 300000)):
        big = {'type': 1, 'fields': {'path': '/' + 'p' * (plen - 1), 'member': 'Big', 'destination': 'c.d'}, 'sig': 'u',
               'trees': [7], 'pres': [], 'no_reply': False, 'no_auto': False, 'serial': 2}
        for setup in ('pre', 'server', 'client'):
            for enc in ([True, True, True], [False, True, False]):
                case = {'setup': setup, 'msgs': [small(1, 'First'), big, small(3, 'Third')], 'enc': enc, 'mode': 'one', 'cuts': []}
                yield case
                total = len(_full(case))
                yield dict(case, mode='cuts', cuts=list(range(65536, total, 65536)))
                yield dict(case, mode='cuts', cuts=[_prefix_len(setup) + 60, _prefix_len(setup) + 70, total - 40])


SUBCHECKS = [
    Subcheck('big_header', run_case, classify, enumerate=enum_big_header, shards={'quick': 4, 'thorough': 4},
             exhaustive_note='a 70 000 (300 000)-character object path between two small messages x 3 receivers x 2 byte-order '
                             'mixes x {one read, 64 KiB reads, cuts around the big message}'),
    Subcheck('random', run_case, classify, strategy=lambda tier: random_case(tier),
             n={'quick': 250, 'thorough': 2500}),
    Subcheck('cuts1', run_case, classify, strategy=lambda tier: short_case(tier, 'all1', 400),
             n={'quick': 25, 'thorough': 200},
             exhaustive_note='per generated stream (<=400 bytes incl. handshake): every single cut position'),
    Subcheck('cuts2', run_case, classify, strategy=lambda tier: short_case(tier, 'all2', 110),
             n={'quick': 4, 'thorough': 30},
             exhaustive_note='per generated stream (<=110 bytes incl. handshake): every pair of cut positions'),
    Subcheck('coalesce', run_case, classify, enumerate=enum_coalesce, shards={'quick': 4, 'thorough': 4},
             exhaustive_note='3 receivers x {LE, BE, alternating} x N minimal replies in one read'),
]
