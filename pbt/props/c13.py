"""C13 -- built-in bus: one live owner per name, ownership follows the flags (DESIGN.md section 3, C13)."""
import itertools

from hypothesis import strategies as st

from .. import refcodec as R
from .. import simnet as N
from ..core import Disc, Subcheck, exc_detail, exc_key
from ..models import nametable as NT

PROPERTY_ID = 'C13'
LEVEL = 'exploration'
RULE = ('many_names: one connection owning 70 / 600 (/ 3000) names is answered about each as if it held only that one. On every second step the observer first asks GetConnectionUnixUser / NameHasOwner / ListNames about each name (answers ignored): read-only questions must change nothing. histories on the real Bus with raw scripted clients (real handshake and Hello): RequestName with all 8 flag '
        'combinations, ReleaseName, disconnect, connect, by up to 4 clients on up to 2 names; enum: every history of '
        'length <=3 (quick) / <=4 (thorough) over 3 clients x 1 name x {8 request flags, release, disconnect}, '
        'exhaustive; enum_q3: three requests by three clients with all 8^3 flag combinations followed by every single '
        'operation (quick) / every pair of operations with flags 0-3 (thorough), exhaustive; random: histories to 40 '
        'steps with 4 clients and 2 names; dense: 3-12 steps, one name, mostly requests, with AddMatch / RemoveMatch by '
        'the same connections in between; flag_bits: undefined bits of the flags word set next to each defined combination (they carry no meaning); '
        'enum_rules: 8 match-rule prefixes (the same rule twice, partly removed ...) held '
        'by owner or waiter before a name changes hands. After EVERY step the reply code, the '
        'NameAcquired / NameLost signals each client received, and GetNameOwner / ListQueuedOwners for every name (asked '
        'by an observer connection) are compared with a reference name table (queue per name, head = owner); '
        'invariants: owner connected, no duplicate or dead queue entries, a released/disconnected client in no queue. '
        'client_flags: DBusClientConnection.requestBusName over all 16 argument combinations x reply codes 1-4: flag word '
        'on the wire = 1*allowReplacement + 2*replaceExisting + 4*doNotQueue and the Deferred fails with '
        'FailedToAcquireName(code) iff errbackUnlessAcquired and code in {2,3}. client_queries: releaseBusName / '
        'getNameOwner / listQueuedBusNameOwners put the question to the bus driver with the name as only argument and '
        'hand the bus answer (reply code, owner, queue) to the caller unchanged. Non-trivial = contention (a second '
        'requester on an owned name) or a release/disconnect with a non-empty queue; distinct = distinct history JSON. Every second '
        'raw peer is big-endian; bus calls carry no SENDER, the true one or another client\'s by turns, and come in the four '
        'header spellings of refcodec.encode_variant; every third peer never says Hello (the bus serves it all the same); '
        'one request in seven is sent fire-and-forget (NO_REPLY_EXPECTED): it counts all the same. Peers end with ConnectionDone, '
        'ConnectionLost or ConnectionAborted by turns; peers that skipped Hello may '
        'say it late, after asking for names.')
ASSUMPTIONS = ['whether a replaced owner is dropped or re-queued is not stated: the model adopts what the next '
               'ListQueuedOwners shows',
               'a queued (non-owner) client releasing the name is answered RELEASED, as the specification defines '
               'NOT_OWNER as "neither owner nor in the queue"']

NAMES = ['org.verif.my-name0', 'org.freedesktop.DBusMenu']     # a hyphen is legal in bus names (not in interface names): use one;
# only the bus's OWN name is special, names that merely begin like it are ordinary
BUS = 'org.freedesktop.DBus'


def _signals(client):
    out = []
    keep = []
    for m in client.inbox:
        if m['type'] == 4 and m['fields'].get(3) in ('NameAcquired', 'NameLost') and m['fields'].get(2) == BUS:
            out.append(('acquired' if m['fields'][3] == 'NameAcquired' else 'lost', m['body'][0]))
        else:
            keep.append(m)
    client.inbox[:] = []
    return out


def run_history(case):
    try:
        rig = N.BusRig()
        obs = rig.attach()
        clients = {}
        for i in range(case['nclients']):
            clients[i] = rig.attach(hello=(i % 3 != 1))     # every third peer skips Hello (the bus serves it regardless)
    except N.RigFailure as e:
        return [Disc('rig.attach-failed', str(e))]
    except Exception as e:
        return [Disc(exc_key(e, 'rig.exception'), exc_detail(e))]
    out = []
    model = NT.NameTable()
    uname = {i: c.name for i, c in clients.items()}
    if len(set(uname.values()) | {obs.name}) != len(uname) + 1:
        out.append(Disc('unique-names-collide', repr(uname)))
    live = set(clients)
    next_id = case['nclients']
    rules_held = {}
    try:
        for c in clients.values():
            _signals(c)
        for si, op in enumerate(case['ops']):
            kind = op[0]
            where = 'step %d %r' % (si, op)
            events = []
            replaced_name = None
            if kind == 'connect':
                if len(live) >= 4:
                    continue
                clients[next_id] = rig.attach(hello=(next_id % 3 != 1))
                uname[next_id] = clients[next_id].name
                if list(uname.values()).count(uname[next_id]) > 1 or uname[next_id] == obs.name:
                    out.append(Disc('unique-name-reused', '%s: %r' % (where, uname)))
                live.add(next_id)
                next_id += 1
            else:
                if not live:
                    continue
                ci = sorted(live)[op[1] % len(live)]
                c = clients[ci]
                if not getattr(c, 'said_hello', True) and (si + ci) % 3 == 2:
                    # a peer that skipped Hello says it now, LATE - after it may have asked for names: it is told the unique
                    # name it already has, and nothing about its names changes
                    c.said_hello = True
                    hr = c.call_bus('Hello')
                    if hr is None or hr['type'] != 2 or hr['body'] != [c.name]:
                        out.append(Disc('late-hello.reply', '%s: %r (unique name %r)' % (where, hr and (hr['type'], hr['body']), c.name)))
                        break
                    c.inbox.remove(hr)
                if kind == 'request':
                    name = NAMES[op[2] % case['nnames']]
                    before = (_relation(model, ci, name), model.allow.get((name, model.owner(name))))
                    quiet = si % 7 == 5       # fire and forget: the caller does not want the reply code, the request counts all the same
                    r = c.call_bus('RequestName', 'su', [name, op[3]], no_reply=quiet)
                    code, events = model.request(ci, name, op[3])
                    if quiet:
                        pass
                    elif r is None or r['type'] != 2 or r['body_sig'] != 'u':
                        out.append(Disc('request.no-code', '%s: %r' % (where, r and (r['type'], r['body']))))
                        break
                    elif r['body'][0] != code:
                        out.append(Disc('request.code:%s,owner-allows=%s,flags=%d:%d->%d' % (
                            before[0], before[1], op[3], code, r['body'][0]),
                            '%s: requester is %s, owner allows replacement=%r: expected reply %d got %d' % (
                                where, before[0], before[1], code, r['body'][0])))
                        break
                    if model.replaced is not None:
                        replaced_name = name
                elif kind == 'release':
                    name = NAMES[op[2] % case['nnames']]
                    before = _relation(model, ci, name)
                    quiet = si % 7 == 3
                    r = c.call_bus('ReleaseName', 's', [name], no_reply=quiet)
                    code, events = model.release(ci, name)
                    if quiet:
                        pass
                    elif r is None or r['type'] != 2 or r['body_sig'] != 'u':
                        out.append(Disc('release.no-code', '%s: %r' % (where, r and (r['type'], r['body']))))
                        break
                    elif r['body'][0] != code:
                        out.append(Disc('release.code:%s:%d->%d' % (before, code, r['body'][0]),
                                        '%s: caller is %s: expected reply %d got %d' % (where, before, code, r['body'][0])))
                        break
                elif kind in ('addmatch', 'removematch'):
                    # what else a connection does on the bus must not disturb its names: match rules come and go
                    text = ["type='signal',member='Tick'", "type='signal',interface='org.verif.A'"][op[2] % 2]
                    held = rules_held.setdefault(ci, [])
                    if kind == 'addmatch':
                        r = c.call_bus('AddMatch', 's', [text])
                        held.append(text)
                    elif text in held:
                        r = c.call_bus('RemoveMatch', 's', [text])
                        held.remove(text)
                    else:
                        continue
                    if r is None or r['type'] != 2:
                        out.append(Disc('matchrule.refused', '%s: %r' % (where, r and (r['type'], r['body']))))
                        break
                elif kind == 'disconnect':
                    try:
                        c.disconnect()
                    except Exception as e:
                        out.append(Disc(exc_key(e, 'disconnect.raises'), '%s: %s' % (where, exc_detail(e))))
                        break
                    live.discard(ci)
                    events = model.disconnect(ci)
            rig.pump_all()
            # the former owner of a replaced name: adopt what the bus shows
            if replaced_name is not None:
                r = obs.call_bus('ListQueuedOwners', 's', [replaced_name])
                seen = _ids(r, uname) if r is not None and r['type'] == 2 else None
                if seen is None or not model.adopt_replaced(replaced_name, seen):
                    out.append(Disc('queue.after-replacement', '%s: ListQueuedOwners shows %r, model %r' % (
                        where, seen, model.queue.get(replaced_name))))
                    break
            # signals
            want = {}
            for ev, cid, name in events:
                want.setdefault(cid, []).append((ev, name))
            for cid in sorted(clients):
                if cid not in live:
                    continue
                got = _signals(clients[cid])
                if sorted(got) != sorted(want.get(cid, [])):
                    out.append(Disc('signals:%s' % ('missing' if len(got) < len(want.get(cid, [])) else 'unexpected'),
                                    '%s: client %d (%s) received %r, expected %r' % (where, cid, uname[cid], got, want.get(cid, []))))
            if out:
                break
            # observable state after every step
            for name in NAMES[:case['nnames']]:
                q = model.queue.get(name)
                if (si + len(name)) % 2 == 0:
                    # the bus's other questions about a name - who runs its owner, is it owned, what names are there -
                    # change nothing, whatever they answer (asked before the two queries the model is compared with)
                    for member, sig_, args in (('GetConnectionUnixUser', 's', [name]), ('NameHasOwner', 's', [name]),
                                               ('ListNames', '', [])):
                        obs.call_bus(member, sig_, args)
                r = obs.call_bus('GetNameOwner', 's', [name])
                if r is None:
                    out.append(Disc('owner.no-reply', where))
                    break
                if q:
                    if r['type'] != 2 or r['body'] != [uname[q[0]]]:
                        out.append(Disc('owner.wrong:%s' % _why_owner(r, q, uname, live),
                                        '%s: GetNameOwner(%s) -> %r, model owner %s (queue %r, live %r)' % (
                                            where, name, r['body'], uname[q[0]], [uname[x] for x in q],
                                            sorted(uname[x] for x in live))))
                        break
                elif r['type'] != 3:
                    out.append(Disc('owner.ghost', '%s: GetNameOwner(%s) -> %r but nobody owns it' % (where, name, r['body'])))
                    break
                r = obs.call_bus('ListQueuedOwners', 's', [name])
                if q:
                    seen = _ids(r, uname) if r is not None and r['type'] == 2 else None
                    if seen != q:
                        out.append(Disc('queue.wrong:%s' % _why_queue(seen, q, live),
                                        '%s: ListQueuedOwners(%s) -> %r, model %r (live %r)' % (
                                            where, name, seen, q, sorted(live))))
                        break
                elif r is None or r['type'] != 3:
                    out.append(Disc('queue.ghost', '%s: %r' % (where, r and r['body'])))
                    break
            obs.inbox[:] = []
            if out:
                break
    except Exception as e:
        out.append(Disc(exc_key(e, 'history.exception'), exc_detail(e)))
    return out


def _relation(model, ci, name):
    q = model.queue.get(name) or []
    if not q:
        return 'free'
    if q[0] == ci:
        return 'owner'
    if ci in q:
        return 'queued'
    return 'other-owns'


def _ids(reply, uname):
    rev = {v: k for k, v in uname.items()}
    try:
        return [rev.get(x, x) for x in reply['body'][0]]
    except Exception:
        return None


def _why_owner(r, q, uname, live):
    if r['type'] != 2:
        return 'no-owner-reported'
    rev = {v: k for k, v in uname.items()}
    got = rev.get(r['body'][0])
    if got is not None and got not in live:
        return 'dead-owner'
    return 'other'


def _why_queue(seen, q, live):
    if seen is None:
        return 'error'
    if len(seen) != len(set(seen)):
        return 'duplicate-entry'
    if any(isinstance(x, int) and x not in live for x in seen):
        return 'dead-entry'
    if set(seen) - set(q):
        return 'extra-entry'
    if set(q) - set(seen):
        return 'missing-entry'
    return 'order'


def classify(case):
    model = NT.NameTable()
    live = set(range(case['nclients']))
    nxt = case['nclients']
    nt = False
    labels = []
    for op in case['ops']:
        k = op[0]
        if k == 'connect':
            if len(live) < 4:
                live.add(nxt)
                nxt += 1
            continue
        if not live:
            continue
        ci = sorted(live)[op[1] % len(live)]
        if k in ('addmatch', 'removematch'):
            labels.append('match_rules_alongside')
        elif k == 'request':
            name = NAMES[op[2] % case['nnames']]
            if model.owner(name) not in (None, ci):
                nt = True
                labels.append('contention')
                q = model.queue.get(name, [])
                if ci in q and (op[3] & 2) and model.allow.get((name, q[0])):
                    labels.append('waiter_replaces_owner' if q.index(ci) == 1 else 'later_waiter_replaces_owner')
                elif ci not in q and (op[3] & 2) and model.allow.get((name, q[0])) and len(q) > 1:
                    labels.append('newcomer_replaces_owner_with_queue')
            code, _ = model.request(ci, name, op[3])
            model.replaced = None
            labels.append('code%d' % code)
        elif k == 'release':
            name = NAMES[op[2] % case['nnames']]
            if model.owner(name) == ci and len(model.queue.get(name, [])) > 1:
                nt = True
                labels.append('release_with_queue')
            model.release(ci, name)
        elif k == 'disconnect':
            if any(q[0] == ci and len(q) > 1 for q in model.queue.values()):
                nt = True
                labels.append('disconnect_with_queue')
            if any(ci in q[1:] for q in model.queue.values()):
                labels.append('queued_client_disconnects')
            live.discard(ci)
            model.disconnect(ci)
    return nt, sorted(set(labels))


def enum_histories(tier):
    n = 3 if tier == 'quick' else 4
    letters = [('request', c, 0, f) for c in range(3) for f in range(8)] + \
              [('release', c, 0) for c in range(3)] + [('disconnect', c) for c in range(3)]
    for length in range(1, n + 1):
        for seq in itertools.product(letters, repeat=length):
            yield {'nclients': 3, 'nnames': 1, 'ops': [list(x) for x in seq]}


@st.composite
def random_history(draw, tier):
    ops = []
    for _ in range(draw(st.integers(2, 40))):
        k = draw(st.sampled_from(['request'] * 6 + ['release'] * 3 + ['disconnect', 'connect']))
        if k == 'request':
            ops.append(['request', draw(st.integers(0, 3)), draw(st.integers(0, 1)), draw(st.integers(0, 7))])
        elif k == 'release':
            ops.append(['release', draw(st.integers(0, 3)), draw(st.integers(0, 1))])
        elif k == 'disconnect':
            ops.append(['disconnect', draw(st.integers(0, 3))])
        else:
            ops.append(['connect'])
    return {'nclients': draw(st.integers(2, 4)), 'nnames': draw(st.integers(1, 2)), 'ops': ops}


# --------------------------------------------------------------------------

def enum_three_requests_then(tier):
    """Three clients request the name with every flag combination (owner + up to two waiters, or replacements on the
    way), then every single operation (quick) / every pair of operations (thorough, flags without do-not-queue)."""
    letters = [('request', c, 0, f) for c in range(3) for f in range(8)] + \
              [('release', c, 0) for c in range(3)] + [('disconnect', c) for c in range(3)]
    for f0, f1, f2 in itertools.product(range(8), repeat=3):
        pre = [['request', 0, 0, f0], ['request', 1, 0, f1], ['request', 2, 0, f2]]
        for a in letters:
            yield {'nclients': 3, 'nnames': 1, 'ops': pre + [list(a)]}
    if tier != 'quick':
        for f0, f1, f2 in itertools.product(range(4), repeat=3):
            pre = [['request', 0, 0, f0], ['request', 1, 0, f1], ['request', 2, 0, f2]]
            for a, b in itertools.product(letters, repeat=2):
                yield {'nclients': 3, 'nnames': 1, 'ops': pre + [list(a), list(b)]}


def enum_unknown_flag_bits(tier):
    """The flags word is a UINT32 of which three bits are defined; the others carry no meaning: a request with extra bits
    set behaves like the same request without them."""
    extra = (0x8, 0x10, 0x20, 0x100, 0x80000000, 0xfffffff8)
    for hi in extra:
        for low in range(8):
            f = hi | low
            for f0 in (0, 1):
                yield {'nclients': 3, 'nnames': 1,
                       'ops': [['request', 0, 0, f0], ['request', 1, 0, f], ['request', 2, 0, 0], ['release', 0, 0],
                               ['request', 1, 0, f]]}
                yield {'nclients': 3, 'nnames': 1,
                       'ops': [['request', 0, 0, 1 | hi], ['request', 1, 0, 0], ['request', 1, 0, f], ['disconnect', 0]]}


def enum_with_rules(tier):
    """Name hand-over by a connection that also holds match rules - none, one, the same one twice, some already removed:
    what the bus must clean up for a leaving connection besides its names must not get in the way of the names."""
    A, B, RA, RB = ['addmatch', 0], ['addmatch', 1], ['removematch', 0], ['removematch', 1]
    prefixes = [[], [A], [A, A], [A, A, RA], [A, RA], [A, B, RA], [A, A, RA, RA], [A, B, A, RB]]
    for pre in prefixes:
        for holder in (0, 1):
            rules = [[k, holder, r] for k, r in pre]
            for f0, f1 in itertools.product((0, 1, 2, 3), repeat=2):
                for closing in (['disconnect', 0], ['disconnect', 1], ['release', 0, 0]):
                    # client indices shift after a disconnect (live clients are counted): keep it to one closing operation
                    yield {'nclients': 3, 'nnames': 1,
                           'ops': rules + [['request', 0, 0, f0], ['request', 1, 0, f1], closing, ['request', 2 if closing[0] == 'release' else 1, 0, 4]]}


@st.composite
def dense_history(draw, tier):
    """One name, three or four clients, mostly requests: contention, queues and replacements build up within a few steps."""
    ops = []
    for _ in range(draw(st.integers(3, 12))):
        k = draw(st.sampled_from(['request'] * 8 + ['release', 'release', 'disconnect', 'addmatch', 'addmatch', 'removematch']))
        if k in ('addmatch', 'removematch'):
            ops.append([k, draw(st.integers(0, 3)), draw(st.integers(0, 1))])
        elif k == 'request':
            ops.append(['request', draw(st.integers(0, 3)), 0, draw(st.sampled_from([0, 0, 1, 1, 2, 2, 3, 3, 4, 5, 6, 7, 8, 0x12, 0x80000001]))])
        elif k == 'release':
            ops.append(['release', draw(st.integers(0, 3)), 0])
        else:
            ops.append(['disconnect', draw(st.integers(0, 3))])
    return {'nclients': draw(st.integers(3, 4)), 'nnames': 1, 'ops': ops}


def enum_client_flags(tier):
    for a, r, q, e in itertools.product([False, True], repeat=4):
        for code in (1, 2, 3, 4):
            yield {'allow': a, 'replace': r, 'dnq': q, 'errback': e, 'code': code}


def run_client_flags(case):
    from twisted.python.failure import Failure
    from txdbus import error as E
    try:
        rig = N.ClientRig(unix=False)
    except N.RigFailure as e:
        return [Disc('client.establish-failed', str(e))]
    out = []
    try:
        rig.sent_messages()
        res = []
        # the documented defaults (no replacement allowed, none asked for, do not queue, errback unless acquired) are relied
        # upon where the wanted value IS the default: such keywords are left out
        DEFAULTS = {'allowReplacement': False, 'replaceExisting': False, 'doNotQueue': True, 'errbackUnlessAcquired': True}
        kw = {'allowReplacement': case['allow'], 'replaceExisting': case['replace'], 'doNotQueue': case['dnq'],
              'errbackUnlessAcquired': case['errback']}
        if case['code'] % 2:
            kw = {k: v for k, v in kw.items() if v != DEFAULTS[k]}
        d = rig.conn.requestBusName('org.verif.Wanted', **kw)
        d.addBoth(res.append)
        sent = [m for k, m in rig.sent_messages() if k == 'msg']
        if len(sent) != 1 or sent[0]['fields'].get(3) != 'RequestName' or sent[0]['body_sig'] != 'su':
            return [Disc('client.request-call', repr(sent))]
        want = (1 if case['allow'] else 0) | (2 if case['replace'] else 0) | (4 if case['dnq'] else 0)
        if sent[0]['body'] != ['org.verif.Wanted', want]:
            out.append(Disc('client.flag-word', 'arguments %r -> body %r, expected flags %d' % (case, sent[0]['body'], want)))
        N.deliver(rig.conn, R.encode_message(2, 70, {5: sent[0]['serial']}, 'u', [case['code']]))
        fail = case['errback'] and case['code'] in (2, 3)
        if len(res) != 1:
            out.append(Disc('client.deferred-count', repr(res)))
        elif fail:
            if not (isinstance(res[0], Failure) and isinstance(res[0].value, E.FailedToAcquireName)
                    and res[0].value.returnCode == case['code']):
                out.append(Disc('client.should-errback', 'code %d: %r' % (case['code'], res[0])))
        elif res[0] != case['code']:
            out.append(Disc('client.should-return-code', 'code %d errback=%r: %r' % (case['code'], case['errback'], res[0])))
    except Exception as e:
        out.append(Disc(exc_key(e, 'client.exception'), exc_detail(e)))
    finally:
        rig.close_rig()
    return out


def enum_client_queries(tier):
    for api, member, rsig, rbody in (('releaseBusName', 'ReleaseName', 'u', [1]), ('releaseBusName', 'ReleaseName', 'u', [2]),
                                     ('releaseBusName', 'ReleaseName', 'u', [3]),
                                     ('getNameOwner', 'GetNameOwner', 's', [':1.77']),
                                     ('listQueuedBusNameOwners', 'ListQueuedOwners', 'as', [[':1.5', ':1.9']]),
                                     ('listQueuedBusNameOwners', 'ListQueuedOwners', 'as', [[]])):
        for name in ('org.verif.Wanted', 'a.b', ':1.3'):
            yield {'api': api, 'member': member, 'rsig': rsig, 'rbody': rbody, 'name': name, 'code': rbody[0] if rsig == 'u' else 0}


def run_client_queries(case):
    """The thin client-side wrappers: the question goes to the bus driver with the name as its only argument, and the
    caller gets the bus's answer (reply code / owner / queue) unchanged."""
    try:
        rig = N.ClientRig(unix=False)
    except N.RigFailure as e:
        return [Disc('client.establish-failed', str(e))]
    out = []
    try:
        rig.sent_messages()
        res = []
        fn = getattr(rig.conn, case['api'], None)
        if fn is None:
            return [Disc('client.api-missing:%s' % case['api'], '')]
        d = fn(case['name'])
        if not hasattr(d, 'addBoth'):
            return [Disc('client.query-no-deferred:%s' % case['api'], repr(d))]
        d.addBoth(res.append)
        sent = [m for k, m in rig.sent_messages() if k == 'msg']
        f = sent[0]['fields'] if len(sent) == 1 else {}
        if len(sent) != 1 or f.get(3) != case['member'] or f.get(2) != 'org.freedesktop.DBus' or \
                f.get(6) != 'org.freedesktop.DBus' or f.get(1) != '/org/freedesktop/DBus' or sent[0]['body'] != [case['name']]:
            return [Disc('client.query-call:%s' % case['api'], repr(sent))]
        N.deliver(rig.conn, R.encode_message(2, 71, {5: sent[0]['serial']}, case['rsig'], case['rbody']))
        if len(res) != 1 or not R.nf_equal(res[0], case['rbody'][0]):
            out.append(Disc('client.query-result:%s' % case['api'], 'bus answered %r, caller got %r' % (case['rbody'], res)))
    except Exception as e:
        out.append(Disc(exc_key(e, 'client.exception'), exc_detail(e)))
    finally:
        rig.close_rig()
    return out


def enum_many_names(tier):
    """One connection that holds very many names (a service manager, a test bus): the answers about each of them are what
    they would be if it held only that one."""
    for n in ((70, 600) if tier == 'quick' else (70, 600, 3000)):
        for waiter in (False, True):
            yield {'n': n, 'waiter': waiter}


def run_many_names(case):
    out = []
    try:
        rig = N.BusRig()
        a = rig.attach()
        b = rig.attach()
    except N.RigFailure as e:
        return [Disc('rig.attach-failed', str(e))]
    try:
        names = ['org.verif.many.n%d' % i for i in range(case['n'])]
        for i, nm in enumerate(names):
            r = a.call_bus('RequestName', 'su', [nm, 1])          # allow replacement
            if r is None or r['type'] != 2 or r['body'] != [1]:
                return [Disc('many.request-refused', 'name %d of %d: %r' % (i + 1, case['n'], r and (r['type'], r['body'])))]
        if case['waiter']:
            r = b.call_bus('RequestName', 'su', [names[0], 0])
            if r is None or r['body'] != [2]:
                out.append(Disc('many.waiter-not-queued', repr(r and r['body'])))
            r = b.call_bus('RequestName', 'su', [names[0], 4])      # the waiter declines queueing after all
            if r is None or r['type'] != 2 or r['body'] != [3]:
                out.append(Disc('many.waiter-decline', repr(r and (r['type'], r['body']))))
        for nm in (names[0], names[-1]):
            r = a.call_bus('RequestName', 'su', [nm, 0])            # asked again by its owner: already owner
            if r is None or r['type'] != 2 or r['body'] != [4]:
                out.append(Disc('many.owner-asks-again', '%s: %r' % (nm, r and (r['type'], r['body']))))
        r = a.call_bus('RequestName', 'su', ['org.verif.many.one-more', 0])
        if r is None or r['type'] != 2 or r['body'] != [1]:
            out.append(Disc('many.one-more-refused', repr(r and (r['type'], r['body']))))
        r = a.call_bus('ListQueuedOwners', 's', [names[0]])
        if r is None or r['type'] != 2 or r['body'] != [[a.name]]:
            out.append(Disc('many.queue', '%r (owner %s)' % (r and r['body'], a.name)))
        r = a.call_bus('ReleaseName', 's', [names[1]])
        if r is None or r['type'] != 2 or r['body'] != [1]:
            out.append(Disc('many.release', repr(r and (r['type'], r['body']))))
    except Exception as e:
        out.append(Disc(exc_key(e, 'many.exception'), exc_detail(e)))
    return out


SUBCHECKS = [
    Subcheck('enum', run_history, classify, enumerate=enum_histories, shards={'quick': 16, 'thorough': 16},
             exhaustive_note='every history of length <=3 (quick) / <=4 (thorough) over 3 clients x 1 name x 30 operations'),
    Subcheck('random', run_history, classify, strategy=lambda tier: random_history(tier),
             n={'quick': 100, 'thorough': 1500}),
    Subcheck('enum_q3', run_history, classify, enumerate=enum_three_requests_then, shards={'quick': 16, 'thorough': 16},
             exhaustive_note='three requests by three clients with all 8^3 flag combinations, followed by every one of the '
                             '30 operations (quick); followed by every pair of operations with flags 0-3 (thorough)'),
    Subcheck('flag_bits', run_history, classify, enumerate=enum_unknown_flag_bits, shards={'quick': 4, 'thorough': 4},
             exhaustive_note='6 undefined flag bits / bit groups x the 8 defined combinations, in two contended histories each'),
    Subcheck('enum_rules', run_history, classify, enumerate=enum_with_rules, shards={'quick': 8, 'thorough': 8},
             exhaustive_note='8 match-rule prefixes (incl. the same rule twice, partly removed) x rule holder = owner or '
                             'waiter x 16 flag pairs x {owner leaves, waiter leaves, owner releases}'),
    Subcheck('dense', run_history, classify, strategy=lambda tier: dense_history(tier),
             n={'quick': 500, 'thorough': 5000}, shards={'quick': 8, 'thorough': 16}),
    Subcheck('many_names', run_many_names, lambda c: (True, ['n=%d' % c['n']] + (['with_waiter'] if c['waiter'] else [])),
             enumerate=enum_many_names, shards={'quick': 4, 'thorough': 6},
             exhaustive_note='one connection owning 70 / 600 (/ 3000) names, with and without a second connection that queues '
                             'for one of them and then declines'),
    Subcheck('client_flags', run_client_flags, lambda c: (True, ['code%d' % c['code']]), enumerate=enum_client_flags,
             shards={'quick': 1, 'thorough': 1},
             exhaustive_note='16 requestBusName argument combinations x 4 reply codes'),
    Subcheck('client_queries', run_client_queries, lambda c: (True, [c['api']]), enumerate=enum_client_queries,
             shards={'quick': 1, 'thorough': 1},
             exhaustive_note='releaseBusName x 3 reply codes, getNameOwner, listQueuedBusNameOwners (empty / two waiters) x 3 names'),
]
