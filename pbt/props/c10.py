"""C10 -- every incoming call gets exactly one correctly addressed reply (DESIGN.md section 3, C10)."""
from hypothesis import strategies as st

from .. import refcodec as R
from .. import strategies as S
from ..core import Disc, Subcheck, exc_detail, exc_key

PROPERTY_ID = 'C10'
LEVEL = 'exploration'
RULE = ('Exception kinds include `wrapper` (an exception carrying another Failure as subFailure, like defer.FirstError). Before the calls every proper string prefix of the exported path that is itself a path is exported as a bare object and withdrawn again (parents and look-alike siblings such as /a/b1 next to /a/b10). generated object classes (type()/exec): 1-3 interfaces declared on a base class and/or a subclass, 1-4 methods each '
        'with argument and return signatures from the type grammar, the same member on several interfaces, bound by '
        'dbus_<name> or by @dbusMethod, with or without a trailing dbusCaller parameter, implemented on base or subclass; '
        '1-6 calls per case, reference-encoded then parsed by parseMessage (flags included) and handed to '
        'DBusObjectHandler.handleMethodCallMessage on a recording connection: right/wrong path, interface right / absent / '
        'other / unknown, member right / unknown, signature right / wrong, reply expected or not, sender present or not, '
        'built-ins Ping / Introspect / GetManagedObjects, user methods that reuse the names Ping / Introspect and calls to '
        'those names without interface; scripted outcome: value, tuple, list, None, Deferred fired or '
        'failed later by the harness, exception (plain, valid / invalid dbusErrorName, non-ASCII class name; plain, '
        'unicode, NUL or lone-surrogate text), value of the wrong type or arity. oracle: number of replies (0 before a '
        'Deferred fires, then 1; none for a dispatched no-reply call), reply_serial, destination, strict reference decode, '
        'METHOD_RETURN signature and values, ERROR name rule and text, UnknownObject / UnknownMethod / InvalidArgs, '
        'implementation invoked exactly once with equal arguments and the caller name iff the lookup succeeds. '
        'Non-trivial = the call reaches user code or fails a lookup stage other than the first; distinct = case JSON. In half of the '
        'cases the base class still declares an older edition (same name, first half of the methods) of each interface the '
        'exported class declares: the exported class\'s own declaration is in force. A third of the '
        'objects reach IDBusObject only through a registered adapter. A quarter of the implementations are coroutines (async def); '
        'a third of the pending Deferred outcomes see ANOTHER object exported at the path before they fire. Some decorated base-class '
        'methods are overridden in the exported subclass without the decorator: the override runs. Exceptions may be unprintable; '
        'methods that ask for dbusCaller may have a defaulted parameter of their own in front of it.')
ASSUMPTIONS = ['a call without interface may run any implementation bound to that member whose interface signature matches, '
               'or be refused InvalidArgs if some interface declaring the member has another signature',
               'every declared (interface, member) has exactly one binding; members sharing a name across interfaces all '
               'use dbus_<name> or all use decorators',
               'a no-reply call that fails its lookup may or may not be answered (at most one reply)',
               'an interface name declared at two levels of a class hierarchy: the declaration of the more derived class '
               'is the one in force (Python attribute lookup order; observed behaviour); members found only in the older '
               'declaration are not called',
               'a subclass method that overrides a @dbusMethod-decorated base method under the same Python name (without '
               'the decorator) is the implementation that runs (ordinary Python overriding; observed behaviour)']

IFACE_NAMES = ['org.verif.Alpha', 'org.verif.Beta', 'org.verif.Gamma']
MEMBERS = ['Ma', 'Mb', 'Mc', 'Md', 'Ping', 'Introspect']     # user methods may reuse the names of the standard ones
SENDER = ':1.99'


class _Conn:
    def __init__(self):
        self.sent = []

    def sendMessage(self, m):
        self.sent.append(m)


def _build(case):
    """-> (handler, conn, obj, state). state carries the invocation log and scripted outcomes."""
    from twisted.internet import defer
    from txdbus import interface as I
    from txdbus import objects as O
    state = {'log': [], 'plan': None, 'deferreds': []}

    def _verif_call(self, impl_id, args, caller):
        state['log'].append((impl_id, list(args), caller))
        plan = state['plan']
        if plan is None:
            return None
        return plan(defer)

    ifaces = {}
    for ispec in case['ifaces']:
        ms = [I.Method(m['name'], m['in'], m['out']) for m in ispec['methods']]
        ifaces[ispec['name']] = I.DBusInterface(ispec['name'], *ms, noRegister=True)
    if _via_parser(case):
        # the exporter did not write its definitions by hand: they came out of the introspection parser (a bridge
        # re-exporting what it introspected elsewhere)
        from txdbus import introspection as X
        saved_known = dict(I.DBusInterface.knownInterfaces)
        try:
            xml = '<node name="/">' + ''.join(i.introspectionXml for i in ifaces.values()) + '</node>'
            ifaces = {pi.name: pi for pi in X.getInterfacesFromXML(xml, True)}
        finally:
            I.DBusInterface.knownInterfaces.clear()
            I.DBusInterface.knownInterfaces.update(saved_known)
    base_ns = {'_verif_call': _verif_call,
               'dbusInterfaces': [ifaces[i['name']] for i in case['ifaces'] if i['level'] == 0]}
    sub_ns = {'dbusInterfaces': [ifaces[i['name']] for i in case['ifaces'] if i['level'] == 1]}
    if not sub_ns['dbusInterfaces']:
        del sub_ns['dbusInterfaces']
    if _older_editions(case):
        # the base class still declares an OLDER EDITION of every interface the subclass declares (same name, only the
        # first half of the methods), ahead of its own interfaces: the exported object's own declaration is in force
        olds = []
        for ispec in case['ifaces']:
            if ispec['level'] == 1:
                half = ispec['methods'][:len(ispec['methods']) // 2]
                olds.append(I.DBusInterface(ispec['name'], *[I.Method(m['name'], m['in'], m['out']) for m in half],
                                            noRegister=True))
        base_ns['dbusInterfaces'] = olds + base_ns['dbusInterfaces']
    binding = {}   # (iface, member) -> impl id
    done_dbus = set()
    n = 0
    for ispec in case['ifaces']:
        for m in ispec['methods']:
            nargs = len(R.split_inner(m['in']))
            params = ''.join(', a%d' % k for k in range(nargs))
            argt = '(' + ''.join('a%d, ' % k for k in range(nargs)) + ')'
            ns = sub_ns if m['impl_level'] == 1 else base_ns
            if m['bind'] == 'dbus':
                pyname = 'dbus_' + m['name']
                impl_id = 'dbus_' + m['name']
                binding[(ispec['name'], m['name'])] = impl_id
                if pyname in done_dbus:
                    continue
                done_dbus.add(pyname)
                # one Python method serves every interface declaring this member: arity is taken from *args
                if m['caller']:
                    src = 'def %s(self, *args, **kw):\n    return self._verif_call(%r, args, kw.get("dbusCaller"))\n' % (pyname, impl_id)
                    src = ('def %s(self%s, dbusCaller=None):\n    return self._verif_call(%r, %s, dbusCaller)\n'
                           % (pyname, params, impl_id, argt))
                    if nargs % 2:
                        # a parameter of the Python method that the wire signature knows nothing about (it keeps its
                        # default) stands between the DBus arguments and dbusCaller
                        src = ('def %s(self%s, _step=10, dbusCaller=None):\n    return self._verif_call(%r, %s, '
                               'dbusCaller if _step == 10 else ("<_step clobbered>", _step, dbusCaller))\n'
                               % (pyname, params, impl_id, argt))
                else:
                    src = 'def %s(self%s):\n    return self._verif_call(%r, %s, "<not asked>")\n' % (
                        pyname, params, impl_id, argt)
                loc = {}
                exec(src, {}, loc)
                ns[pyname] = loc[pyname]
            else:
                pyname = 'impl_%d' % n
                n += 1
                if m.get('dbus_named') and ('dbus_' + m['name']) not in done_dbus:
                    # a decorated method that also carries the dbus_<member> name: found by name for every
                    # interface declaring the member, so the interface test in executeMethod must sort it out
                    pyname = 'dbus_' + m['name']
                    done_dbus.add(pyname)
                impl_id = pyname + '@' + ispec['name']
                binding[(ispec['name'], m['name'])] = impl_id
                if m['caller']:
                    src = ('def %s(self%s, dbusCaller=None):\n    return self._verif_call(%r, %s, dbusCaller)\n'
                           % (pyname, params, impl_id, argt))
                else:
                    src = 'def %s(self%s):\n    return self._verif_call(%r, %s, "<not asked>")\n' % (
                        pyname, params, impl_id, argt)
                loc = {}
                exec(src, {}, loc)
                ns[pyname] = O.dbusMethod(ispec['name'], m['name'])(loc[pyname])
                if m['impl_level'] == 0 and not pyname.startswith('dbus_') and (n + len(case['path'])) % 3 == 0:
                    # the subclass OVERRIDES the decorated method under the same Python name, without repeating the
                    # decorator (ordinary method overriding): calls on the exported subclass instance run the override
                    over_id = 'override:' + impl_id
                    binding[(ispec['name'], m['name'])] = over_id
                    src2 = src.replace(repr(impl_id), repr(over_id))
                    loc2 = {}
                    exec(src2, {}, loc2)
                    sub_ns[pyname] = loc2[pyname]
                    state.setdefault('overrides', []).append(over_id)
    if len(case['path']) % 2:
        sub_ns['__len__'] = lambda self: 0      # an exported object that is false in a boolean context (an empty container)
    Base = type('VBase', (O.DBusObject,), base_ns)
    Sub = type('VSub', (Base,), sub_ns)
    obj = Sub(case['path'])
    conn = _Conn()
    h = O.DBusObjectHandler(conn)
    if _adapted(case):
        # the application object is not an IDBusObject itself: a registered adapter provides one for it
        # (exportObject() adapts what it is given)
        h.exportObject(_plain_for(O, obj))
    else:
        h.exportObject(obj)
    # neighbours that came and went: every proper string prefix of the path that is itself a path (the parent, but also
    # siblings like /a/b1 next to /a/b10) was exported for a while and is withdrawn again; the object itself stays
    P = case['path']
    for n in range(2, len(P)):
        if P[n - 1] != '/':
            h.exportObject(O.DBusObject(P[:n]))
    for n in range(2, len(P)):
        if P[n - 1] != '/':
            h.unexportObject(P[:n])
    conn.sent[:] = []
    state['binding'] = binding
    return h, conn, obj, state


class _Plain:
    def __init__(self, dbus_obj):
        self.dbus_obj = dbus_obj


_ADAPTER_REGISTERED = []


def _plain_for(O, dbus_obj):
    from twisted.python import components
    if not _ADAPTER_REGISTERED:
        components.registerAdapter(lambda plain: plain.dbus_obj, _Plain, O.IDBusObject)
        _ADAPTER_REGISTERED.append(True)
    return _Plain(dbus_obj)


def _via_parser(case):
    return case.get('via_parser', (len(case['ifaces']) + len(case['calls'])) % 5 == 2)


def _adapted(case):
    return case.get('adapted', (len(case['path']) + len(case['calls'])) % 3 == 0)


def _older_editions(case):
    return case.get('older_editions', len(case['ifaces']) % 2 == 0) and any(i['level'] == 1 for i in case['ifaces'])


def _method_spec(case, iface, member):
    for i in case['ifaces']:
        if i['name'] == iface:
            for m in i['methods']:
                if m['name'] == member:
                    return m
    return None


def _exc_class(kind):
    if kind == 'plain':
        return type('VerifFailure', (Exception,), {})
    if kind == 'named':
        return type('NamedFailure', (Exception,), {'dbusErrorName': 'org.verif.Error.Named'})
    if kind == 'badname':
        return type('BadName', (Exception,), {'dbusErrorName': 'not a valid name'})
    if kind == 'badname-format':
        return type('BadName', (Exception,), {'dbusErrorName': 'org.verif.Error.%s%d%'})
    if kind == 'unprintable':
        # an exception that cannot even say what it is: __str__ returns no string (txdbus.bus.DError built without a
        # message does just that); the caller is owed its one error reply all the same
        return type('Unprintable', (Exception,), {'__str__': lambda self: None})
    if kind == 'wrapper':
        # an exception that carries another failure inside, as twisted's defer.FirstError does (`subFailure`): it is still
        # THE exception the method failed with, and the reply is named after it
        def _init(self, *a):
            from twisted.python.failure import Failure
            Exception.__init__(self, *a)
            self.subFailure = Failure(KeyError('inner'))
        return type('Wrapper', (Exception,), {'__init__': _init})
    if kind == 'nonascii':
        return type('Fehleré', (Exception,), {})
    if kind == 'none-name':
        return type('NoneName', (Exception,), {'dbusErrorName': None})
    if kind == 'nested':
        return _Holder.NestedFailure       # its qualified name differs from its name
    if kind == 'local':
        class LocalFailure(Exception):     # defined in a function: '<locals>' in the qualified name
            pass
        return LocalFailure
    raise ValueError(kind)


class _Holder:
    class NestedFailure(Exception):
        pass


def _expected_error_name(kind):
    return {'plain': 'org.txdbus.PythonException.VerifFailure', 'named': 'org.verif.Error.Named',
            'badname': 'org.txdbus.InvalidErrorName', 'badname-format': 'org.txdbus.InvalidErrorName', 'nonascii': 'org.txdbus.InvalidErrorName',
            'none-name': 'org.txdbus.PythonException.NoneName', 'unprintable': 'org.txdbus.PythonException.Unprintable', 'nested': 'org.txdbus.PythonException.NestedFailure',
            'local': 'org.txdbus.PythonException.LocalFailure', 'wrapper': 'org.txdbus.PythonException.Wrapper'}[kind]


TEXTS = {'plain': 'it broke', 'empty': '', 'unicode': 'käput €', 'nul': 'bad\x00text',
         'surrogate': 'lone \udc80 surrogate', 'format': '100% {broken} %s %(x)d \\n'}


def run_case(case):
    from txdbus import message as MSG
    try:
        h, conn, obj, state = _build(case)
    except Exception as e:
        return [Disc(exc_key(e, 'build.class'), exc_detail(e))]
    out = []
    binding = state['binding']
    for ci, call in enumerate(case['calls']):
        where = 'call %d' % ci
        serial = 100 + ci
        fields = {1: call['path'], 3: call['member']}
        if call['iface'] is not None:
            fields[2] = call['iface']
        if call['sender']:
            fields[7] = SENDER
        fields[6] = ':1.5'
        raw = R.encode_variant(ci + len(call['member']), 1, serial, fields, call['sig'], call['trees'], little=call['little'],
                               flags=1 if call['no_reply'] else 0)
        msg = MSG.parseMessage(raw, [])
        state['log'][:] = []
        state['deferreds'][:] = []
        outc = call['outcome']
        spec = None
        # ---- what should happen (oracle)
        builtin = None
        if call['iface'] == 'org.freedesktop.DBus.Peer' and call['member'] == 'Ping':
            builtin = 'ping'
        elif call['iface'] == 'org.freedesktop.DBus.Introspectable' and call['member'] == 'Introspect':
            builtin = 'introspect'
        elif call['iface'] == 'org.freedesktop.DBus.ObjectManager' and call['member'] == 'GetManagedObjects':
            builtin = 'managed'
        exported = call['path'] == case['path']
        candidates = []   # (iface, spec) that could serve this call
        if exported and not builtin:
            for i in case['ifaces']:
                if call['iface'] is not None and i['name'] != call['iface']:
                    continue
                for m in i['methods']:
                    if m['name'] == call['member']:
                        candidates.append((i['name'], m))
        runnable = [(i, m) for i, m in candidates if m['in'] == call['sig']]
        # ---- scripted behaviour of the implementation
        pending = {}

        def plan(defer, outc=outc, pending=pending):
            if outc.get('coro') and outc['kind'] in ('value', 'raise', 'deferred', 'deferred-fail'):
                # the implementation is written as a coroutine function (async def): what it returns or raises is the
                # outcome all the same, and it may await a Deferred on the way
                async def body():
                    r = plan_sync(defer, outc, pending)
                    if isinstance(r, defer.Deferred):
                        r = await r
                    return r
                return body()
            return plan_sync(defer, outc, pending)

        def plan_sync(defer, outc, pending):
            k = outc['kind']
            spec_ = pending.get('spec') or {'out': ''}
            if k in ('value', 'deferred', 'deferred-fail', 'wrong-type', 'wrong-arity'):
                vals = S.to_py_list(spec_['out'], outc['trees'], outc.get('pres', [])) if spec_['out'] else []
                nret = len(vals)
                if k == 'wrong-type':
                    ret = object()
                    if nret >= 2:
                        ret = tuple([object()] * nret)
                elif k == 'wrong-arity':
                    ret = tuple(vals[:-1]) if nret >= 2 else (1, 2, 3)
                    if nret >= 2 and len(ret) == 1:
                        ret = ret[0] if not isinstance(ret[0], (list, tuple)) else ret
                elif nret == 0:
                    ret = None
                elif nret == 1:
                    ret = vals[0]
                else:
                    ret = tuple(vals) if outc.get('as_tuple', True) else list(vals)
                if k in ('deferred', 'deferred-fail'):
                    d = defer.Deferred()
                    pending['d'] = d
                    pending['ret'] = ret
                    return d
                return ret
            if k == 'raise':
                raise _exc_class(outc['exc'])(TEXTS[outc['text']])
            raise ValueError(k)
        state['plan'] = plan
        if runnable:
            pending['spec'] = runnable[0][1]
        elif candidates:
            pending['spec'] = candidates[0][1]
        try:
            h.handleMethodCallMessage(msg)
        except Exception as e:
            out.append(Disc(exc_key(e, 'dispatch.raises'), where + ': ' + exc_detail(e)))
            break
        sent_now = list(conn.sent)
        log = list(state['log'])
        # which implementation actually ran decides the declared return signature
        ran_spec = None
        if log:
            ids = {binding[(i, m['name'])]: (i, m) for i, m in candidates}
            if log[0][0] in ids:
                ran_spec = ids[log[0][0]][1]
        if 'd' in pending:
            if sent_now:
                out.append(Disc('reply.before-deferred-fired', '%s: %d messages sent while the result is pending' % (
                    where, len(sent_now))))
            swapped = False
            if outc.get('reexport') and call['path'] == case['path']:
                # while the result is pending the application puts ANOTHER object at that path (a reload): the call
                # was accepted by the first object and still gets its one reply
                from txdbus import objects as O2
                h.exportObject(O2.DBusObject(case['path']))
                conn.sent[:] = []
                swapped = True
            try:
                if outc['kind'] == 'deferred':
                    pending['d'].callback(pending['ret'])
                else:
                    from twisted.python.failure import Failure
                    pending['d'].errback(Failure(_exc_class(outc['exc'])(TEXTS[outc['text']])))
            except Exception as e:
                out.append(Disc(exc_key(e, 'dispatch.deferred-raises'), where + ': ' + exc_detail(e)))
                break
        replies = list(conn.sent)
        conn.sent[:] = []
        if 'd' in pending and swapped:
            h.exportObject(obj)         # the original object takes its path back for the calls that follow
            conn.sent[:] = []
        # ---- judge
        if len(replies) > 1:
            out.append(Disc('reply.more-than-one', '%s: %d replies' % (where, len(replies))))
            break
        should_run = bool(runnable)
        may_refuse_args = any(m['in'] != call['sig'] for _, m in candidates)
        if call['iface'] is None and runnable and may_refuse_args:
            should_run = None     # either is admissible
        if log and not candidates:
            out.append(Disc('invoke.user-code-ran-on-failed-lookup', '%s: %r' % (where, log)))
        if len(log) > 1:
            out.append(Disc('invoke.more-than-once', '%s: %r' % (where, log)))
        if should_run is True and not log:
            out.append(Disc('invoke.not-invoked', '%s: %s.%s(%s) on %s: no implementation ran; replies %r' % (
                where, call['iface'], call['member'], call['sig'], call['path'], [_desc(r) for r in replies])))
        if should_run is False and log:
            out.append(Disc('invoke.ran-despite-mismatch', '%s: %r' % (where, log)))
        if log:
            impl_id, args, caller = log[0]
            allowed = {binding[(i, m['name'])] for i, m in runnable}
            if impl_id not in allowed:
                out.append(Disc('invoke.wrong-implementation', '%s: ran %s, bound %r' % (where, impl_id, sorted(allowed))))
            exp_args = S.normal_forms(call['sig'], call['trees']) if call['sig'] else []
            if not R.nf_equal(args, exp_args):
                out.append(Disc('invoke.arguments', '%s: expected %r got %r' % (where, exp_args, args)))
            if ran_spec is not None:
                want_caller = (SENDER if call['sender'] else None) if ran_spec['caller'] else '<not asked>'
                if caller != want_caller:
                    out.append(Disc('invoke.caller', '%s: expected %r got %r' % (where, want_caller, caller)))
        # number of replies
        dispatched = bool(log)
        if dispatched and call['no_reply']:
            if replies:
                out.append(Disc('reply.sent-for-no-reply-call', '%s: %s' % (where, _desc(replies[0]))))
            continue
        if not call['no_reply'] and len(replies) != 1:
            out.append(Disc('reply.missing:%s' % (outc['kind'] + ':' + outc.get('text', '') if dispatched else
                                                  (builtin or 'lookup-failure')),
                            '%s: a reply is expected, %d sent (outcome %r)' % (where, len(replies), outc)))
            continue
        if not replies:
            continue
        rep = replies[0]
        try:
            d = R.decode_message(rep.rawMessage)
        except R.RefError as e:
            out.append(Disc('reply.malformed:%s' % (outc['kind'] if dispatched else 'lookup'),
                            '%s: %s; outcome %r raw=%s' % (where, e, outc, rep.rawMessage.hex()[:300])))
            continue
        if d['fields'].get(5) != serial:
            out.append(Disc('reply.reply_serial', '%s: expected %d got %r' % (where, serial, d['fields'].get(5))))
        if d['fields'].get(6) != (SENDER if call['sender'] else None):
            out.append(Disc('reply.destination', '%s: expected %r got %r' % (
                where, SENDER if call['sender'] else None, d['fields'].get(6))))
        if builtin:
            if builtin == 'ping' and (d['type'] != 2 or d['body']):
                out.append(Disc('builtin.ping', _desc(rep)))
            if builtin == 'introspect' and exported and (d['type'] != 2 or d['body_sig'] != 's'):
                out.append(Disc('builtin.introspect', _desc(rep)))
            if builtin == 'managed' and exported and (d['type'] != 2 or d['body_sig'] != 'a{oa{sa{sv}}}'):
                out.append(Disc('builtin.managed', _desc(rep)))
            if builtin == 'managed' and not exported and not (
                    d['type'] == 3 and d['fields'].get(4) == 'org.freedesktop.DBus.Error.UnknownObject'):
                # the object manager speaks for exported objects only: elsewhere the answer is UnknownObject
                out.append(Disc('builtin.managed-on-unexported-path', '%s: %s' % (where, _desc(rep))))
            continue
        if not dispatched:
            if not exported:
                want = ['org.freedesktop.DBus.Error.UnknownObject']
            elif not candidates:
                want = ['org.freedesktop.DBus.Error.UnknownMethod']
            else:
                want = ['org.freedesktop.DBus.Error.InvalidArgs']
            if d['type'] != 3 or d['fields'].get(4) not in want:
                out.append(Disc('lookup.wrong-error:%s' % want[0].rsplit('.', 1)[1],
                                '%s: expected %s got %s' % (where, want, _desc(rep))))
            continue
        k = outc['kind']
        if k in ('value', 'deferred'):
            spec = ran_spec or pending.get('spec') or {'out': '<no method should have run>'}
            if d['type'] != 2:
                out.append(Disc('return.not-a-method-return', '%s: %s' % (where, _desc(rep))))
            elif d['body_sig'] != spec['out'] or d['body'] != (outc['trees'] if spec['out'] else []):
                out.append(Disc('return.values', '%s: declared %r returned %r; reply carries %r %r' % (
                    where, spec['out'], outc['trees'], d['body_sig'], d['body'])))
        elif k in ('raise', 'deferred-fail'):
            want = _expected_error_name(outc['exc'])
            if d['type'] != 3:
                out.append(Disc('error.not-an-error-reply', '%s: %s' % (where, _desc(rep))))
            else:
                if d['fields'].get(4) != want:
                    out.append(Disc('error.name:%s' % outc['exc'], '%s: expected %r got %r' % (
                        where, want, d['fields'].get(4))))
                text = TEXTS[outc['text']]
                got = d['body'][0] if d['body'] and d['body_sig'].startswith('s') else None
                if outc['exc'] == 'unprintable':
                    pass        # what text stands in for an exception that has none is not asserted
                elif outc['text'] in ('nul', 'surrogate'):
                    if got is None:
                        out.append(Disc('error.text-missing', '%s: %r' % (where, d['body'])))
                elif want == 'org.txdbus.InvalidErrorName':
                    if got is None or not got.endswith(text):
                        out.append(Disc('error.text', '%s: expected to end with %r got %r' % (where, text, got)))
                elif got != text:
                    out.append(Disc('error.text', '%s: expected %r got %r' % (where, text, got)))
        else:   # wrong-type / wrong-arity
            if d['type'] != 3:
                out.append(Disc('unencodable.%s-not-an-error' % k, '%s: %s' % (where, _desc(rep))))
    return out


def _desc(m):
    try:
        d = R.decode_message(m.rawMessage, strict=False)
        return 'type %d fields %r body %r' % (d['type'], d['fields'], d['body'])
    except Exception as e:
        return 'undecodable (%s) %s' % (e, m.rawMessage.hex()[:200])


def classify(case):
    labels = []
    nt = False
    if _older_editions(case):
        labels.append('older_edition_in_base_class')
    if _adapted(case):
        labels.append('exported_through_adapter')
    if _via_parser(case):
        labels.append('definitions_from_the_xml_parser')
    for call in case['calls']:
        exported = call['path'] == case['path']
        cands = [m for i in case['ifaces'] if call['iface'] in (None, i['name']) for m in i['methods']
                 if m['name'] == call['member']]
        runs = [m for m in cands if m['in'] == call['sig']]
        if exported and runs:
            nt = True
            labels.append('reaches_user_code')
            labels.append('outcome_' + call['outcome']['kind'])
            if call['outcome'].get('coro'):
                labels.append('implementation_is_a_coroutine')
            if call['outcome'].get('reexport'):
                labels.append('path_re-exported_while_pending')
            if call['no_reply']:
                labels.append('no_reply')
        elif exported and cands:
            nt = True
            labels.append('InvalidArgs')
        elif exported:
            nt = True
            labels.append('UnknownMethod')
        else:
            labels.append('UnknownObject')
        if call['iface'] is None:
            labels.append('no_interface')
    if any(i['level'] == 1 for i in case['ifaces']):
        labels.append('inherited')
    names = [m['name'] for i in case['ifaces'] for m in i['methods']]
    if len(names) != len(set(names)):
        labels.append('member_on_several_interfaces')
    return nt, sorted(set(labels))


_sigs = st.one_of(st.just(''), S.signature(max_types=3, depth=2, min_types=1),
                  st.sampled_from(['s', 'i', 'ii', 'as', '(is)', 'v', 'a{sv}', 'si']))


@st.composite
def gen_case(draw, tier):
    ni = draw(st.integers(1, 3))
    ifaces = []
    bind_of = {}
    caller_of = {}
    for k in range(ni):
        nm = draw(st.integers(1, 4))
        members = draw(st.lists(st.sampled_from(MEMBERS), min_size=nm, max_size=nm, unique=True))
        methods = []
        level = draw(st.sampled_from([0, 0, 1]))
        for name in members:
            if name not in bind_of:
                bind_of[name] = draw(st.sampled_from(['dbus', 'deco']))
                caller_of[name] = draw(st.booleans())
            bind = bind_of[name]
            methods.append({'name': name, 'in': draw(_sigs), 'out': draw(_sigs), 'bind': bind,
                            'caller': caller_of[name] if bind == 'dbus' else draw(st.booleans()),
                            'impl_level': draw(st.sampled_from([0, 1])) if bind == 'deco' else None,
                            'dbus_named': bind == 'deco' and draw(st.integers(0, 3)) == 0})
        ifaces.append({'name': IFACE_NAMES[k], 'methods': methods, 'level': level})
    # a dbus_<name> method shared by interfaces needs one arity: align the argument counts, and one home class
    for name, bind in bind_of.items():
        if bind != 'dbus':
            continue
        specs = [m for i in ifaces for m in i['methods'] if m['name'] == name]
        lvl = draw(st.sampled_from([0, 1]))
        n0 = len(R.split_inner(specs[0]['in']))
        for m in specs:
            m['impl_level'] = lvl
            if len(R.split_inner(m['in'])) != n0:
                m['in'] = specs[0]['in']
    path = draw(st.sampled_from(['/obj', '/a/b', '/', '/a/b10']))
    calls = []
    for _ in range(draw(st.integers(1, 6))):
        i = draw(st.sampled_from(ifaces))
        m = draw(st.sampled_from(i['methods']))
        mode = draw(st.sampled_from(['ok', 'ok', 'ok', 'ok', 'wrong-path', 'no-iface', 'other-iface', 'unknown-iface',
                                     'unknown-member', 'wrong-sig', 'ping', 'introspect', 'managed', 'std-name-no-iface']))
        call = {'path': path, 'iface': i['name'], 'member': m['name'], 'sig': m['in'], 'no_reply': draw(st.booleans()),
                'sender': draw(st.integers(0, 4)) != 0, 'little': draw(st.booleans())}
        if mode == 'wrong-path':
            call['path'] = draw(st.sampled_from(['/nope', path + ('x' if path != '/' else 'x'), '/obj/child']))
        elif mode == 'no-iface':
            call['iface'] = None
        elif mode == 'other-iface':
            call['iface'] = draw(st.sampled_from(ifaces))['name']
        elif mode == 'unknown-iface':
            call['iface'] = 'org.verif.Nowhere'
        elif mode == 'unknown-member':
            # not declared on any interface - including names that DO exist as Python attributes of the exported object
            call['member'] = draw(st.sampled_from(['Zz', 'Zz', 'getInterfaces', 'emitSignal', 'getObjectPath', 'dbus_Ma',
                                                   '_verif_call', 'Get', '__init__']))
        elif mode == 'wrong-sig':
            call['sig'] = draw(_sigs)
        elif mode == 'ping':
            call.update(iface='org.freedesktop.DBus.Peer', member='Ping', sig='')
            call['path'] = draw(st.sampled_from([path, '/nope']))
        elif mode == 'introspect':
            call.update(iface='org.freedesktop.DBus.Introspectable', member='Introspect', sig='')
        elif mode == 'managed':
            call.update(iface='org.freedesktop.DBus.ObjectManager', member='GetManagedObjects', sig='')
            call['path'] = draw(st.sampled_from([path, path, '/nope', '/obj/child']))
        elif mode == 'std-name-no-iface':
            # a standard member name without the interface that makes it the standard member: whatever the object
            # itself binds to that name (or nothing) must answer
            name = draw(st.sampled_from(['Ping', 'Introspect']))
            own = [mm for ii in ifaces for mm in ii['methods'] if mm['name'] == name]
            call.update(iface=None, member=name, sig=draw(st.sampled_from([own[0]['in']] if own else ['', 's'])))
            call['path'] = draw(st.sampled_from([path, path, '/nope']))
        call['trees'] = [draw(S.tree_for(t, 2)) for t in R.split_inner(call['sig'])]
        # outcome, in terms of the method that will run (if any)
        target = None
        for ii in ifaces:
            if call['iface'] in (None, ii['name']):
                for mm in ii['methods']:
                    if mm['name'] == call['member'] and mm['in'] == call['sig'] and target is None:
                        target = mm
        kind = draw(st.sampled_from(['value', 'value', 'value', 'deferred', 'deferred-fail', 'raise', 'raise',
                                     'wrong-type', 'wrong-arity']))
        outc = {'kind': kind}
        osig = target['out'] if target else ''
        ncand = sum(1 for ii in ifaces for mm in ii['methods'] if mm['name'] == call['member'])
        if call['iface'] is None and ncand > 1:
            # which interface serves the call is the implementation's choice: use an outcome that does not
            # depend on the declared return signature
            kind = outc['kind'] = 'raise'
        nret = len(R.split_inner(osig))
        if kind == 'wrong-arity' and nret < 2:
            kind = outc['kind'] = 'wrong-type'
        if kind == 'wrong-type' and (not osig or 'b' in osig):     # marshal_boolean accepts any object
            kind = outc['kind'] = 'value'
        outc['trees'] = [draw(S.tree_for(t, 2)) for t in R.split_inner(osig)]
        outc['pres'] = draw(S.presentation)
        outc['as_tuple'] = draw(st.booleans())
        outc['coro'] = draw(st.integers(0, 3)) == 0
        outc['reexport'] = kind in ('deferred', 'deferred-fail') and draw(st.integers(0, 2)) == 0
        if kind in ('raise', 'deferred-fail'):
            outc['exc'] = draw(st.sampled_from(['plain', 'plain', 'named', 'badname', 'badname-format', 'nonascii', 'none-name', 'nested', 'local', 'unprintable', 'wrapper']))
            outc['text'] = draw(st.sampled_from(['plain', 'plain', 'empty', 'unicode', 'nul', 'surrogate', 'format']))
        call['outcome'] = outc
        calls.append(call)
    return {'ifaces': ifaces, 'path': path, 'calls': calls}


SUBCHECKS = [
    Subcheck('dispatch', run_case, classify, strategy=lambda tier: gen_case(tier),
             n={'quick': 350, 'thorough': 4000}),
]
