"""C06 -- the bus authenticates a peer only after a mechanism accepted it (DESIGN.md section 3, C06)."""
import binascii
import hashlib
import itertools
import os
import shutil
import tempfile

from hypothesis import strategies as st

from .. import refcodec as R
from .. import simnet as N
from ..core import Disc, Subcheck, exc_detail, exc_key
from ..models import authserver as A

PROPERTY_ID = 'C06'
LEVEL = 'exploration'
RULE = ('Cookie variants include stray-high-bytes (the right answer with bytes >= 0x80 mixed in: never accepted). real/EXTERNAL: the peer ids the kernel reports are drawn (own uid/gid, 1000/100, 70000/1000, 1000/1000) and the client names the peer uid. many_logins: 150 / 400 overlapping cookie logins (finished, cancelled, mixed) in a process whose descriptor limit is 48 '
        'above current use, then the exchange that was open all along answers with the right cookie. cookie_overlap: three cookie exchanges of one user in every order, finished or cancelled, optionally with one of them '
        'begun more than the cookie lifetime before the others (its keyring entry back-dated by 31 s): every non-aged exchange '
        'answered with the right cookie is accepted. '
        'scripted: sequences of authentication lines over a 12-letter abstract alphabet (AUTH without mechanism / unknown '
        'mechanism / offered mechanism with and without valid or invalid hex initial response, DATA empty / hex / non-hex, '
        'BEGIN, CANCEL, ERROR, unknown word), exhaustive to length 4 (quick) / 5 (thorough) x 3 cyclic scripts of '
        'mechanism outcomes (accept, challenge, reject), plus random sequences to length 40 over a wider alphabet '
        '(NEGOTIATE_UNIX_FD, empty line, leading space, lower case, non-UTF-8, non-ASCII hex) with random scripts; each '
        'fed line-per-read in lock step with a reference server state machine written from the spec (response word, '
        'REJECTED mechanism set, OK guid, DATA challenge hex, close, authenticated flag, mechanism consulted exactly when '
        'prescribed) and again under a second splitting (byte-per-read, one read, cuts incl. between CR and LF) that must '
        'give the identical transcript; an independent safety invariant is evaluated on the raw transcript. framing: '
        'first byte != NUL, NUL alone, 16384/16385-byte lines, unterminated buffer past 16 KiB. real: ANONYMOUS, '
        'EXTERNAL with/without peer credentials, DBUS_COOKIE_SHA1 with the right response and with wrong cookie / wrong '
        'challenge / swapped / truncated / empty / non-hex / replayed responses, against a spec-following client. '
        'near_commands: command words with foreign bytes in them, in lower case or with glued suffixes, and every '
        'non-protocol word the authenticators would dispatch on by handler name (read off the implementation), in several '
        'states - all must be treated as unknown commands. cookie_overlap: three simultaneous DBUS_COOKIE_SHA1 exchanges of one user, all orders of their start / end events, '
        'each completed with the cookie the keyring shows or cancelled - every right answer is accepted. Non-trivial = the sequence leaves WaitingForAuth, crosses the rejection limit, or is split inside a line; '
        'distinct = distinct case JSON.')
ASSUMPTIONS = ['where the spec leaves the answer open the model admits a set: invalid or non-ASCII hex -> '
               '{ERROR, REJECTED, close (, mechanism outcome)}; non-UTF-8 command -> {ERROR, close}; ERROR text free; '
               'the sixth rejection closes with or without a final REJECTED line',
               'an exception escaping dataReceived is connection loss for that peer (what the reactor does)',
               'the cookie keyring of the bus mechanism is redirected to a scratch directory through the mechanism\'s '
               'own keyring_dir parameter']

GUID = b'feedfacefeedfacefeedfacefeedface'
OFFERED = [b'MECHA', b'MECHB']

LETTERS = {
    'A0': b'AUTH', 'AU': b'AUTH NOSUCH', 'AA': b'AUTH MECHA', 'AAr': b'AUTH MECHA 6162', 'ABx': b'AUTH MECHB zz',
    'D0': b'DATA', 'Dh': b'DATA 6364', 'Dx': b'DATA xyz', 'BG': b'BEGIN', 'CN': b'CANCEL', 'ER': b'ERROR',
    'UK': b'FOO bar',
    # random sequences only
    'NG': b'NEGOTIATE_UNIX_FD', 'EM': b'', 'SP': b' AUTH MECHA', 'LC': b'auth MECHA', 'NU': b'\xff\xfeX y',
    'ERt': b'ERROR "some text"', 'AB': b'AUTH MECHB', 'Dn': b'DATA ff', 'An': b'AUTH MECHA c3a9', 'BGa': b'BEGIN now',
    'D2': b'DATA 61 62', 'AUr': b'AUTH NOSUCH 6162', 'ASP': b'AUTH  MECHA  6162  ',
}
CORE = ['A0', 'AU', 'AA', 'AAr', 'ABx', 'D0', 'Dh', 'Dx', 'BG', 'CN', 'ER', 'UK']
PROTOCOL_WORDS = {'AUTH', 'BEGIN', 'CANCEL', 'DATA', 'ERROR', 'NEGOTIATE_UNIX_FD'}
# near-commands: a real command word with foreign bytes in it, in lower case, glued to something - all of them are unknown
NEAR = {'BGn': b'BEG\xc3\xa9IN', 'BGz': b'BEGIN\xe2\x80\x8b', 'AAn': b'AU\xc3\xa9TH MECHA 6162', 'bg': b'begin', 'Bg': b'Begin',
        'AAx': b'AUTHX MECHA', 'BGx': b'BEGINNING', 'DTn': b'DA\xc2\xa0TA 6364', 'OKs': b'OK 0123456789abcdef'}
LETTERS.update(NEAR)


def _whitebox_words():
    """Command words the implementation's own dispatch table would react to (the authenticators look handlers up by
    name): every such name that is not a protocol command is a line a peer can send and the bus must treat as unknown."""
    try:
        from txdbus import authentication as AU
        names = set()
        for cls in (AU.BusAuthenticator, AU.ClientAuthenticator):
            for n in dir(cls):
                if n.startswith('_auth_') and callable(getattr(cls, n, None)):
                    names.add(n[len('_auth_'):])
        return sorted(w for w in names if w and w not in PROTOCOL_WORDS)
    except Exception:
        return []


WHITEBOX = {}
for _i, _w in enumerate(_whitebox_words()):
    WHITEBOX['WB%d' % _i] = _w.encode('ascii', 'replace') + b' 726f6f74'
    WHITEBOX['WB%db' % _i] = _w.encode('ascii', 'replace')
LETTERS.update(WHITEBOX)
SCRIPTS = [
    [['OK', None]],
    [['CONTINUE', 'c1'], ['OK', None]],
    [['CONTINUE', 'c1'], ['REJECT', None], ['OK', None], ['CONTINUE', ''], ['CONTINUE', 'c 2'], ['OK', None]],
]
SPLITS = ['bytes', 'one', 'crlf', 'cuts']
TAIL = R.encode_message(1, 7, {1: '/t', 3: 'Tail'})    # a binary message with no CR LF in it
assert b'\r\n' not in TAIL and b'\n' not in TAIL


def _server(script, log):
    import txdbus.protocol as P
    from txdbus import authentication as AU
    from zope.interface import implementer

    def make_mech(name):
        @implementer(AU.IBusAuthenticationMechanism)
        class Mech:
            def getMechanismName(self):
                return name

            def init(self, protocol):
                log['inits'] += 1

            def step(self, arg):
                i = log['steps']
                log['steps'] += 1
                log['args'].append(arg)
                o, ch = script[i % len(script)]
                if o == 'OK':
                    return ('OK', None)
                if o == 'CONTINUE':
                    return ('CONTINUE', ch.encode('ascii'))
                return ('REJECT', None)

            def getUserName(self):
                return 'user-' + name

            def cancel(self):
                log['cancels'] += 1
        return Mech

    class Auth(AU.BusAuthenticator):
        authenticators = {b'MECHA': make_mech('MECHA'), b'MECHB': make_mech('MECHB')}

    return _protocol(Auth, log)


def _protocol(auth_cls, log, transport=None):
    import txdbus.protocol as P

    class Srv(P.BasicDBusProtocol):
        _client = False
        authenticator = auth_cls

        def connectionAuthenticated(self):
            log['authed'] += 1

        def rawDBusMessageReceived(self, raw):
            log['binary'].append(raw)

    class _Bus:
        uuid = GUID

    class _Factory:
        bus = _Bus()

    s = Srv()
    s.factory = _Factory()
    s.makeConnection(transport or N.FakeTransport())
    return s


def _newlog():
    return {'steps': 0, 'inits': 0, 'cancels': 0, 'authed': 0, 'args': [], 'binary': []}


def _parse_resp(raw):
    """Server output for one client line -> list of (word, rest)."""
    out = []
    for ln in raw.split(b'\r\n'):
        if ln == b'':
            continue
        w, _, rest = ln.partition(b' ')
        out.append((w.decode('ascii', 'replace'), rest))
    return out


def _outcome_of(script):
    return lambda i: tuple(script[i % len(script)])


def _lines(case):
    return [LETTERS[x] for x in case['seq']]


def _canonical(case):
    """Line-per-read run in lock step with the model.  -> (discs, transcript, summary)"""
    import txdbus.protocol as P
    P._is_linux = False
    script = case['script']
    log = _newlog()
    srv = _server(script, log)
    out = []
    st = A.State()
    transcript = []
    N.deliver(srv, b'\0')
    if srv.transport.take() or srv.transport.disconnected:
        out.append(Disc('lock.nul-byte', 'server reacted to the initial NUL byte'))
    lines = _lines(case)
    for idx, line in enumerate(lines):
        if st.closed or st.authed:
            break
        steps_before = log['steps']
        N.deliver(srv, line + b'\r\n')
        raw = srv.transport.take()
        resp = _parse_resp(raw)
        closed = srv.transport.disconnected
        authed = log['authed'] > 0
        transcript.append((line, resp, closed, authed))
        alts = A.step(st, line, OFFERED, _outcome_of(script))
        word = resp[0][0] if resp else None
        if len(resp) > 1:
            out.append(Disc('lock.multiple-responses', 'line %r answered %r' % (line, resp)))
            break
        match = None
        for kind, payload, nxt in alts:
            if kind == 'close':
                ok = closed and word is None and not authed
            elif kind == 'REJECTED+close':
                ok = closed and word == 'REJECTED' and not authed
            elif kind == 'authenticated':
                ok = authed and not closed and word is None
            else:
                ok = (word == kind) and not closed and not authed
            if ok:
                match = (kind, payload, nxt)
                if nxt.steps - st.steps == log['steps'] - steps_before:
                    break
        if match is None:
            out.append(Disc('lock.%s.%s->%s' % (st.state, A.parse_line(line, OFFERED)[0],
                                                 'closed' if closed else ('authenticated' if authed else word)),
                            'after %r: line %r answered %r closed=%r authenticated=%r; the state machine admits %r' % (
                                [l for l, _, _, _ in transcript[:-1]], line, raw, closed, authed,
                                [k for k, _, _ in alts])))
            break
        kind, payload, nxt = match
        if nxt.steps - st.steps != log['steps'] - steps_before:
            out.append(Disc('lock.mechanism-consulted', 'line %r in %s: model consults the mechanism %d time(s), '
                            'implementation %d' % (line, st.state, nxt.steps - st.steps, log['steps'] - steps_before)))
        if kind in ('REJECTED', 'REJECTED+close'):
            if sorted(resp[0][1].split()) != sorted(OFFERED):
                out.append(Disc('lock.rejected-mechanism-list', repr(resp[0][1])))
        elif kind == 'OK':
            if resp[0][1].strip() != GUID:
                out.append(Disc('lock.ok-guid', repr(resp[0][1])))
        elif kind == 'DATA':
            if resp[0][1].strip() != binascii.hexlify(payload.encode('ascii')):
                out.append(Disc('lock.data-challenge', 'expected hex of %r got %r' % (payload, resp[0][1])))
        st = nxt
    # tail: binary bytes are interpreted as a message iff authenticated
    if not srv.transport.disconnected:
        N.deliver(srv, TAIL)
    got_binary = len(log['binary'])
    if got_binary and not st.authed:
        out.append(Disc('safety.binary-before-authentication', 'transcript %r' % (transcript,)))
    if st.authed and not st.closed and got_binary != 1:
        out.append(Disc('lock.binary-after-authentication', 'authenticated but %d messages delivered' % got_binary))
    # independent safety invariant on the raw transcript
    if log['authed']:
        i = len(transcript) - 1
        ok = transcript and transcript[i][0].split(b' ')[0] == b'BEGIN'
        j = i - 1
        while ok and j >= 0 and transcript[j][1] and transcript[j][1][0][0] == 'ERROR':
            j -= 1
        if not ok or j < 0 or not transcript[j][1] or transcript[j][1][0][0] != 'OK':
            out.append(Disc('safety.authenticated-without-accepted-mechanism', 'transcript %r' % (transcript,)))
    if log['authed'] > 1:
        out.append(Disc('safety.authenticated-twice', ''))
    # after close nothing more is written
    if srv.transport.disconnected and srv.transport.peek():
        out.append(Disc('lock.write-after-close', repr(srv.transport.peek())))
    summary = (b''.join(b'\r\n'.join(w.encode() + (b' ' + r if r else b'') for w, r in resp)
                        for _, resp, _, _ in transcript),
               srv.transport.disconnected, log['authed'], log['steps'], got_binary)
    return out, transcript, summary, st


def _split_run(case):
    """Same byte stream under another read partition; returns the summary."""
    import txdbus.protocol as P
    P._is_linux = False
    log = _newlog()
    srv = _server(case['script'], log)
    lines = _lines(case)
    data = b'\0' + b''.join(ln + b'\r\n' for ln in lines)
    mode = case['split']
    if mode == 'bytes':
        chunks = [data[i:i + 1] for i in range(len(data))]
    elif mode == 'one':
        chunks = [data]
    elif mode == 'crlf':    # cut between CR and LF of every line
        cuts = [i + 1 for i in range(len(data)) if data[i:i + 2] == b'\r\n']
        chunks = N.cut(data, cuts)
    else:
        chunks = N.cut(data, [c % max(1, len(data)) for c in case.get('cuts', [3, 7, 20])])
    outb = b''
    for ch in chunks:
        if srv.transport.disconnected:
            break
        N.deliver(srv, ch)
        outb += srv.transport.take()
    if not srv.transport.disconnected and log['authed']:
        N.deliver(srv, TAIL)
    elif not srv.transport.disconnected:
        N.deliver(srv, TAIL)
    words = b''.join(b'\r\n'.join(w.encode() + (b' ' + r if r else b'') for w, r in [x])
                     for x in _parse_resp(outb))
    return (words, srv.transport.disconnected, log['authed'], log['steps'], len(log['binary']))


def run_scripted(case):
    try:
        out, transcript, summary, st = _canonical(case)
    except Exception as e:
        return [Disc(exc_key(e, 'lock.harness-or-impl'), exc_detail(e))]
    if out:
        return out
    # the lines the canonical run never delivered (after close / authentication) are cut off
    used = len(transcript)
    c2 = dict(case)
    # lines after the one that closed the connection may arrive in the same read: they must be disregarded;
    # only after a completed handshake is the rest binary, so the sequence is cut there
    c2['seq'] = case['seq'][:used] if st.authed else list(case['seq'])
    try:
        s2 = _split_run(c2)
    except Exception as e:
        return [Disc(exc_key(e, 'split.exception'), exc_detail(e))]
    if s2 != summary:
        out.append(Disc('split.%s.transcript-differs' % case['split'],
                        'lines %r: line-per-read %r, %s %r' % (_lines(c2), summary, case['split'], s2)))
    return out


def classify_scripted(case):
    st = A.State()
    script = case['script']
    labels = []
    left = False
    crossed = False
    # follow the first admissible alternative (deterministic parts are what matters for labelling)
    for line in _lines(case):
        if st.closed or st.authed:
            break
        alts = A.step(st, line, OFFERED, _outcome_of(script))
        st = alts[0][2]
        if st.state != A.WFA:
            left = True
        if st.rejects > A.MAX_REJECTS:
            crossed = True
    if left:
        labels.append('leaves_WaitingForAuth')
    if crossed:
        labels.append('crosses_reject_limit')
    if st.authed:
        labels.append('authenticates')
    labels.append('split_' + case['split'])
    return left or crossed or case['split'] in ('bytes', 'crlf', 'cuts'), labels


def enum_scripted(tier):
    maxlen = 4 if tier == 'quick' else 5
    i = 0
    for n in range(1, maxlen + 1):
        for seq in itertools.product(CORE, repeat=n):
            for si, script in enumerate(SCRIPTS):
                yield {'seq': list(seq), 'script': script, 'split': SPLITS[i % 3]}
                i += 1


def enum_near_commands(tier):
    """Each near-command and each word from the implementation's own handler names, in every state a short prefix can
    reach, followed by what a peer would try next."""
    prefixes = [[], ['AA'], ['AAr'], ['AA', 'Dh'], ['AU'], ['AAr', 'CN'], ['AA', 'Dh', 'Dh']]
    follow = [[], ['BG'], ['AAr', 'BG'], ['Dh', 'BG']]
    i = 0
    for x in sorted(NEAR) + sorted(WHITEBOX):
        for pre in prefixes:
            for fol in follow:
                for script in SCRIPTS[:2]:
                    yield {'seq': pre + [x] + fol, 'script': script, 'split': SPLITS[i % 3]}
                    i += 1


@st.composite
def random_scripted(draw, tier):
    n = draw(st.integers(1, 40))
    letters = sorted(LETTERS)
    # bias towards rejection-producing letters so that the limit is crossed
    pool = st.sampled_from(letters + ['AU', 'ER', 'A0', 'CN', 'AA', 'AB', 'Dh', 'D0'] * 2)
    seq = [draw(pool) for _ in range(n)]
    k = draw(st.integers(1, 6))
    script = [draw(st.sampled_from([['OK', None], ['CONTINUE', 'c1'], ['CONTINUE', ''], ['CONTINUE', 'x y z'],
                                    ['REJECT', None], ['REJECT', None]])) for _ in range(k)]
    return {'seq': seq, 'script': script, 'split': draw(st.sampled_from(SPLITS)),
            'cuts': draw(st.lists(st.integers(1, 400), min_size=1, max_size=8))}


# --------------------------------------------------------------------------
# framing faults

def enum_framing(tier):
    yield {'f': 'first-byte', 'b': 65}
    yield {'f': 'first-byte', 'b': 1}
    yield {'f': 'first-byte-then-auth'}
    yield {'f': 'nul-alone'}
    for n in (16383, 16384, 16385, 20000):
        yield {'f': 'long-line', 'n': n}
    for n in (16384, 16385, 40000):
        yield {'f': 'unterminated', 'n': n, 'chunk': 1000}
        yield {'f': 'unterminated', 'n': n, 'chunk': 100000}


def run_framing(case):
    import txdbus.protocol as P
    P._is_linux = False
    log = _newlog()
    srv = _server(SCRIPTS[0], log)
    t = srv.transport
    f = case['f']
    out = []
    try:
        if f == 'first-byte':
            N.deliver(srv, bytes([case['b']]) + b'AUTH MECHA\r\nBEGIN\r\n')
            if not t.disconnected or log['authed'] or t.peek():
                out.append(Disc('framing.missing-nul-not-closed', 'first byte %d: closed=%r authed=%r wrote=%r' % (
                    case['b'], t.disconnected, log['authed'], t.peek())))
        elif f == 'first-byte-then-auth':
            N.deliver(srv, b'A')
            if not t.disconnected:
                out.append(Disc('framing.missing-nul-not-closed', 'single byte A'))
        elif f == 'nul-alone':
            N.deliver(srv, b'\0')
            N.deliver(srv, b'AUTH MECHA\r\n')
            N.deliver(srv, b'BEGIN\r\n')
            if t.disconnected or log['authed'] != 1:
                out.append(Disc('framing.nul-alone', 'closed=%r authed=%r' % (t.disconnected, log['authed'])))
        elif f == 'long-line':
            n = case['n']
            line = b'AUTH ' + b'x' * (n - 5)
            assert len(line) == n
            N.deliver(srv, b'\0' + line + b'\r\n')
            should_close = n > 16384
            if t.disconnected != should_close:
                out.append(Disc('framing.long-line', 'complete line of %d bytes: closed=%r' % (n, t.disconnected)))
            if not should_close and not t.peek().startswith(b'REJECTED'):
                out.append(Disc('framing.long-line-answer', repr(t.peek()[:40])))
        elif f == 'unterminated':
            n, chunk = case['n'], case['chunk']
            N.deliver(srv, b'\0')
            sent = 0
            while sent < n and not t.disconnected:
                k = min(chunk, n - sent)
                N.deliver(srv, b'y' * k)
                sent += k
            should_close = n > 16384
            if t.disconnected != should_close:
                out.append(Disc('framing.unterminated', '%d bytes without CR LF (chunks of %d): closed=%r' % (
                    n, chunk, t.disconnected)))
            if len(srv._buffer) > max(n, 16384) + 1:
                out.append(Disc('framing.buffer-growth', str(len(srv._buffer))))
    except Exception as e:
        out.append(Disc(exc_key(e, 'framing.exception'), exc_detail(e)))
    return out


# --------------------------------------------------------------------------
# real mechanisms against a spec-following client

def _peer_ids(case):
    """uid and gid the kernel reports for the peer: this process's own, or those of an ordinary account whose primary
    group has another number than its uid (users in a shared group), or a uid beyond 16 bits."""
    return [(os.getuid(), os.getgid()), (1000, 100), (70000, 1000), (1000, 1000)][case.get('peer', 0) % 4]


def _real_server(creds, scratch, log, ids=None):
    import txdbus.protocol as P
    from txdbus import authentication as AU

    class ScratchCookie(AU.BusCookieAuthenticator):
        cookieContext = 'org_verif_ctx'

        def _step_one(self, username, keyring_dir=None):
            return AU.BusCookieAuthenticator._step_one(self, username, scratch)

    class Auth(AU.BusAuthenticator):
        authenticators = dict(AU.BusAuthenticator.authenticators)
    Auth.authenticators[b'DBUS_COOKIE_SHA1'] = ScratchCookie
    t = N.FakeTransport()
    if creds == 'none':
        P._is_linux = False
    else:
        P._is_linux = True
        t.socket = N.StubSocket((4321,) + tuple(ids or (os.getuid(), os.getgid())))
    return _protocol(Auth, log, t)


def _exchange(srv, line):
    N.deliver(srv, line + b'\r\n')
    return _parse_resp(srv.transport.take())


def _read_cookie(scratch, context, cookie_id):
    try:
        with open(os.path.join(scratch, context.decode()), 'rb') as f:
            for ln in f:
                parts = ln.split()
                if len(parts) == 3 and parts[0] == cookie_id:
                    return parts[2]
    except OSError:
        pass
    return None


def run_real(case):
    import txdbus.protocol as P
    saved = P._is_linux
    scratch = tempfile.mkdtemp(prefix='verif-c06-')
    os.chmod(scratch, 0o700)
    log = _newlog()
    out = []
    try:
        srv = _real_server(case.get('creds', 'none'), scratch, log, _peer_ids(case) if case.get('mech') == 'EXTERNAL' else None)
        N.deliver(srv, b'\0')
        mech = case['mech']
        should = None
        # the hex encoding of initial responses and DATA payloads may use capital digits (hex is case-insensitive;
        # what is INSIDE - the cookie digest - is compared as text and stays lower-case)
        upper = len(repr(sorted(case.items()))) % 2 == 1
        _hx = (lambda b: binascii.hexlify(b).upper()) if upper else binascii.hexlify
        if mech == 'ANONYMOUS':
            r = _exchange(srv, b'AUTH ANONYMOUS' + (b' ' + _hx(b'verif-Trace/1.0 [J]') if case.get('trace') else b''))
            should = True
        elif mech == 'EXTERNAL':
            uid = _hx(str(_peer_ids(case)[0]).encode())      # the identity it asks for is its own: the uid of the peer process
            r = _exchange(srv, b'AUTH EXTERNAL' + (b' ' + uid if case.get('initial') else b''))
            # a spec-following client answers a DATA challenge of EXTERNAL with an (empty) DATA
            guard = 0
            while r and r[0][0] == 'DATA' and guard < 3:
                r = _exchange(srv, b'DATA')
                guard += 1
            should = case['creds'] == 'peer'
        else:
            user = __import__('pwd').getpwuid(os.getuid()).pw_name
            ident = user if case.get('ident') == 'name' else str(os.getuid())
            if case.get('prefill'):
                # the keyring already holds cookies of earlier exchanges: expired ones (older than the cookie lifetime),
                # live ones, one from a clock slightly ahead - none of them is ours, all of them are legal content
                now = int(__import__('time').time())
                lines = {'stale': [(50, now - 100)], 'fresh': [(7, now - 5)], 'both': [(3, now - 3600), (9, now - 1), (4, now + 2)],
                         'damaged': [(5, now - 2)]}
                with open(os.path.join(scratch, 'org_verif_ctx'), 'wb') as f:
                    for cid_, t_ in lines[case['prefill']]:
                        f.write(b'%d %d %s\n' % (cid_, t_, binascii.hexlify(b'old-cookie-%d' % cid_)))
                    if case['prefill'] == 'damaged':
                        # what a crash in the middle of a rewrite, or another program, leaves behind: a truncated entry, a
                        # blank line, an entry with extra fields, a timestamp that is no number
                        f.write(b'6 %d\n\n8 %d aabbcc extra\n9 yesterday ddeeff\n' % (now, now))
                os.chmod(os.path.join(scratch, 'org_verif_ctx'), 0o600)
            r = _exchange(srv, b'AUTH DBUS_COOKIE_SHA1 ' + _hx(ident.encode()))
            if not r or r[0][0] != 'DATA':
                out.append(Disc('real.cookie.no-challenge', 'server answered %r' % (r,)))
                return out
            try:
                ctx, cid, schal = binascii.unhexlify(r[0][1].strip()).split()
            except Exception:
                out.append(Disc('real.cookie.malformed-challenge', 'server sent %r' % (r,)))
                return out
            cookie = _read_cookie(scratch, ctx, cid)
            if cookie is None:
                out.append(Disc('real.cookie.keyring-entry-missing', 'context %r id %r' % (ctx, cid)))
                return out
            cchal = binascii.hexlify(hashlib.sha1(case['nonce'].encode()).digest())
            # the client's challenge is an opaque string of its own choosing: lower-case hex (what most clients send),
            # upper-case hex, or any other token without blanks
            style = case.get('chal', 'lower')
            if style == 'upper':
                cchal = cchal.upper()
            elif style == 'token':
                cchal = b'Nonce-' + cchal[:12].upper() + b'_z'
            good = binascii.hexlify(hashlib.sha1(schal + b':' + cchal + b':' + cookie).digest())
            v = case['variant']
            if v == 'right':
                resp = cchal + b' ' + good
            elif v == 'wrong-cookie':
                resp = cchal + b' ' + binascii.hexlify(hashlib.sha1(schal + b':' + cchal + b':' + cookie[::-1]).digest())
            elif v == 'wrong-challenge':
                resp = cchal + b' ' + binascii.hexlify(hashlib.sha1(cchal + b':' + cchal + b':' + cookie).digest())
            elif v == 'swapped':
                resp = good + b' ' + cchal
            elif v == 'truncated':
                resp = cchal + b' ' + good[:-2]
            elif v == 'empty':
                resp = b''
            elif v == 'one-field':
                resp = good
            elif v == 'hash-of-nothing':
                resp = cchal + b' ' + binascii.hexlify(hashlib.sha1(b'').digest())
            elif v == 'stray-high-bytes':
                # the right answer with bytes outside ASCII sprinkled in: not the right answer
                resp = b'\xff' + cchal + b' ' + good[:7] + b'\xc3\xa9' + good[7:] + b'\x80'
            elif v == 'concurrent':
                # another connection runs its own exchange (challenge, right answer, BEGIN) while ours is pending;
                # both present the right cookie, both must be accepted
                log2 = _newlog()
                srv2 = _real_server('none', scratch, log2)
                N.deliver(srv2, b'\0')
                r2 = _exchange(srv2, b'AUTH DBUS_COOKIE_SHA1 ' + binascii.hexlify(ident.encode()))
                try:
                    ctx2, cid2, schal2 = binascii.unhexlify(r2[0][1].strip()).split()
                    cookie2 = _read_cookie(scratch, ctx2, cid2)
                    good2 = binascii.hexlify(hashlib.sha1(schal2 + b':' + cchal + b':' + cookie2).digest())
                except Exception:
                    out.append(Disc('real.cookie.no-challenge', 'concurrent connection: server answered %r' % (r2,)))
                    return out
                if cid2 == cid:
                    out.append(Disc('real.cookie.id-reused-by-concurrent-exchange', 'both exchanges were given cookie id %r' % cid))
                r2 = _exchange(srv2, b'DATA ' + binascii.hexlify(cchal + b' ' + good2))
                if not r2 or r2[0][0] != 'OK':
                    out.append(Disc('real.cookie.concurrent-exchange-refused', 'second connection: %r' % (r2,)))
                _exchange(srv2, b'BEGIN')
                cookie = _read_cookie(scratch, ctx, cid) or cookie      # our own cookie must still be there
                if _read_cookie(scratch, ctx, cid) is None:
                    out.append(Disc('real.cookie.lost-by-concurrent-exchange', 'cookie %r vanished from the keyring' % cid))
                resp = cchal + b' ' + good
            elif v == 'replay':
                # response computed for an earlier exchange on another connection
                log2 = _newlog()
                srv2 = _real_server('none', scratch, log2)
                N.deliver(srv2, b'\0')
                r2 = _exchange(srv2, b'AUTH DBUS_COOKIE_SHA1 ' + binascii.hexlify(ident.encode()))
                try:
                    ctx2, cid2, schal2 = binascii.unhexlify(r2[0][1].strip()).split()
                    assert r2[0][0] == 'DATA'
                except Exception:
                    out.append(Disc('real.cookie.no-challenge', 'second connection: server answered %r' % (r2,)))
                    return out
                cookie2 = _read_cookie(scratch, ctx2, cid2)
                resp = cchal + b' ' + binascii.hexlify(hashlib.sha1(schal2 + b':' + cchal + b':' + cookie2).digest())
                _exchange(srv2, b'CANCEL')
            else:
                raise ValueError(v)
            should = v in ('right', 'concurrent')
            if v == 'non-hex':
                r = _exchange(srv, b'DATA zz')
            elif v == 'stray-high-bytes':
                # (the reference state machine of the scripted sub-checks allows a payload that is not ASCII text to be
                # answered by ERROR, by REJECTED or by closing the connection; the same holds here - what is required is
                # that it is never accepted)
                r = _exchange(srv, b'DATA ' + _hx(resp))
                dropped = srv.transport.disconnected
            else:
                r = _exchange(srv, b'DATA ' + _hx(resp) if resp else b'DATA')
            if v != 'right' and _read_cookie(scratch, ctx, cid) is not None and not srv.transport.disconnected:
                pass
        accepted = bool(r) and r[0][0] == 'OK'
        if accepted:
            if r[0][1].strip() != GUID:
                out.append(Disc('real.ok-guid', repr(r)))
            _exchange(srv, b'BEGIN')
        authed = log['authed'] > 0
        if authed and not should:
            out.append(Disc('real.%s.authenticated-with-bad-credentials' % mech, repr(case)))
        if should and not authed:
            out.append(Disc('real.%s.acceptable-credentials-refused' % mech,
                            'case %r: last answer %r closed=%r' % (case, r, srv.transport.disconnected)))
        if not should and not authed and mech != 'ANONYMOUS':
            # the refusal itself must be an answer of the state machine, not a crash
            if srv.transport.disconnected and log.get('exc') is None and not r and case.get('variant') != 'stray-high-bytes':
                out.append(Disc('real.%s.refusal-closed-instead-of-REJECTED' % mech,
                                'case %r: connection closed without REJECTED' % (case,)))
        if mech == 'DBUS_COOKIE_SHA1':
            if _read_cookie(scratch, ctx, cid) is not None and not (case['variant'] == 'stray-high-bytes' and srv.transport.disconnected):
                out.append(Disc('real.cookie.not-deleted-after-exchange', 'variant %s' % case['variant']))
            if srv.transport.disconnected is False and should is False and r and r[0][0] != 'REJECTED':
                out.append(Disc('real.cookie.wrong-response-answer', repr(r)))
    except Exception as e:
        out.append(Disc(exc_key(e, 'real.exception'), exc_detail(e)))
    finally:
        P._is_linux = saved
        shutil.rmtree(scratch, ignore_errors=True)
    return out


def enum_cookie_overlap(tier):
    """Three connections of one user run their cookie exchanges at the same time: every order of the six events
    (challenge requested / answered) x each exchange either completed with the right answer or cancelled."""
    events = [('start', 0), ('start', 1), ('start', 2), ('end', 0), ('end', 1), ('end', 2)]
    for perm in itertools.permutations(events):
        pos = {e: i for i, e in enumerate(perm)}
        if any(pos[('start', c)] > pos[('end', c)] for c in range(3)):
            continue
        for ends in itertools.product(('finish', 'cancel'), repeat=3):
            if tier == 'quick' and ends.count('cancel') > 1:
                continue
            ops = [[k if k == 'start' else ends[c], c] for k, c in perm]
            yield {'ops': ops}
            # the same history with one exchange having begun more than the cookie lifetime (30 s) before the others:
            # its keyring entry has aged by the time the first exchange ends
            first_end = min(i for i, o in enumerate(ops) if o[0] != 'start')
            for old in range(3):
                if pos[('start', old)] < first_end:
                    yield {'ops': ops[:first_end] + [['age', old]] + ops[first_end:]}


def run_cookie_overlap(case):
    import txdbus.protocol as P
    saved = P._is_linux
    scratch = tempfile.mkdtemp(prefix='verif-c06-')
    os.chmod(scratch, 0o700)
    out = []
    try:
        user = __import__('pwd').getpwuid(os.getuid()).pw_name
        conns = {}
        aged = set()
        for op, c in case['ops']:
            if op == 'start':
                log = _newlog()
                srv = _real_server('none', scratch, log)
                N.deliver(srv, b'\0')
                r = _exchange(srv, b'AUTH DBUS_COOKIE_SHA1 ' + binascii.hexlify(user.encode()))
                try:
                    assert r[0][0] == 'DATA'
                    ctx, cid, schal = binascii.unhexlify(r[0][1].strip()).split()
                except Exception:
                    return [Disc('overlap.no-challenge', 'connection %d: server answered %r' % (c, r))]
                # a conforming client answers at once with the cookie the keyring holds under the announced id
                cookie = _read_cookie(scratch, ctx, cid)
                if cookie is None:
                    return [Disc('overlap.keyring-entry-missing', 'connection %d: id %r' % (c, cid))]
                cchal = binascii.hexlify(hashlib.sha1(b'client%d' % c).digest())
                if c == 1:
                    cchal = cchal.upper()
                elif c == 2:
                    cchal = b'Nonce-' + cchal[:12].upper()
                resp = cchal + b' ' + binascii.hexlify(hashlib.sha1(schal + b':' + cchal + b':' + cookie).digest())
                conns[c] = (srv, log, cid, resp, ctx)
            elif op == 'age':
                # 31 seconds have passed since connection c asked for its challenge (the others asked just now)
                aged.add(c)
                path = os.path.join(scratch, conns[c][4].decode())
                if os.path.exists(path):
                    lines = open(path, 'rb').read().split(b'\n')
                    with open(path, 'wb') as f:
                        for ln in lines:
                            p3 = ln.split()
                            if len(p3) == 3 and p3[0] == conns[c][2]:
                                p3[1] = str(int(p3[1]) - 31).encode()
                                ln = b' '.join(p3)
                            if ln:
                                f.write(ln + b'\n')
            elif op == 'cancel':
                srv, log, cid, resp = conns[c][:4]
                _exchange(srv, b'CANCEL')
            else:
                srv, log, cid, resp = conns[c][:4]
                r = _exchange(srv, b'DATA ' + binascii.hexlify(resp))
                if c in aged:
                    continue        # whether an exchange that outlived its own cookie still succeeds is not judged
                if not r or r[0][0] != 'OK':
                    out.append(Disc('overlap.right-cookie-refused', 'history %r: connection %d (cookie id %r) answered %r; '
                                    'ids in play %r' % (case['ops'], c, cid, r, {k: v[2] for k, v in conns.items()})))
                    break
                _exchange(srv, b'BEGIN')
                if log['authed'] != 1:
                    out.append(Disc('overlap.not-authenticated-after-begin', 'connection %d' % c))
                    break
    except Exception as e:
        out.append(Disc(exc_key(e, 'overlap.exception'), exc_detail(e)))
    finally:
        P._is_linux = saved
        shutil.rmtree(scratch, ignore_errors=True)
    return out


def enum_many_logins(tier):
    """A long-running bus: hundreds of cookie logins, each finishing (or cancelled) while another exchange is still open,
    in a process whose descriptor limit is 48 above what it already uses - then the exchange that was open all along
    answers with the right cookie."""
    for n in ((150, 400) if tier == 'quick' else (150, 400, 1500)):
        for ends in ('finish', 'cancel', 'mixed', 'lone-finish', 'lone-cancel'):
            yield {'n': n, 'ends': ends}


def run_many_logins(case):
    import resource
    import txdbus.protocol as P
    saved = P._is_linux
    scratch = tempfile.mkdtemp(prefix='verif-c06-')
    os.chmod(scratch, 0o700)
    out = []
    soft, hard = resource.getrlimit(resource.RLIMIT_NOFILE)
    try:
        user = __import__('pwd').getpwuid(os.getuid()).pw_name

        def begin(tag):
            log = _newlog()
            srv = _real_server('none', scratch, log)
            N.deliver(srv, b'\0')
            r = _exchange(srv, b'AUTH DBUS_COOKIE_SHA1 ' + binascii.hexlify(user.encode()))
            if not r or r[0][0] != 'DATA':
                raise _Refused('%s: no challenge: %r' % (tag, r))
            ctx, cid, schal = binascii.unhexlify(r[0][1].strip()).split()
            cookie = _read_cookie(scratch, ctx, cid)
            if cookie is None:
                raise _Refused('%s: keyring entry %r missing' % (tag, cid))
            cchal = binascii.hexlify(hashlib.sha1(tag.encode()).digest())
            resp = cchal + b' ' + binascii.hexlify(hashlib.sha1(schal + b':' + cchal + b':' + cookie).digest())
            return srv, log, resp

        used = len(os.listdir('/proc/self/fd'))
        resource.setrlimit(resource.RLIMIT_NOFILE, (min(hard, used + 48), hard))
        try:
            lone = case['ends'].startswith('lone-')     # one exchange at a time: each one finds the keyring empty and leaves it empty
            parked = None if lone else begin('parked')
            for i in range(case['n']):
                srv, log, resp = begin('login-%d' % i)
                how = case['ends'].replace('lone-', '') if case['ends'] != 'mixed' else ('finish' if i % 2 else 'cancel')
                if how == 'cancel':
                    _exchange(srv, b'CANCEL')
                else:
                    r = _exchange(srv, b'DATA ' + binascii.hexlify(resp))
                    if not r or r[0][0] != 'OK':
                        out.append(Disc('many.right-cookie-refused', 'login %d of %d answered %r' % (i, case['n'], r)))
                        break
                    _exchange(srv, b'BEGIN')
                N.close(srv)
            if not out:
                srv, log, resp = parked if parked is not None else begin('last')
                r = _exchange(srv, b'DATA ' + binascii.hexlify(resp))
                if not r or r[0][0] != 'OK':
                    out.append(Disc('many.parked-client-refused', 'after %d other logins (%s) the exchange that was open all '
                                    'along answered with the right cookie and got %r' % (case['n'], case['ends'], r)))
        finally:
            resource.setrlimit(resource.RLIMIT_NOFILE, (soft, hard))
    except _Refused as e:
        out.append(Disc('many.no-challenge', str(e)))
    except Exception as e:
        out.append(Disc(exc_key(e, 'many.exception'), exc_detail(e)))
    finally:
        resource.setrlimit(resource.RLIMIT_NOFILE, (soft, hard))
        P._is_linux = saved
        shutil.rmtree(scratch, ignore_errors=True)
    return out


class _Refused(Exception):
    pass


COOKIE_VARIANTS = ['right', 'right', 'concurrent', 'wrong-cookie', 'wrong-challenge', 'swapped', 'truncated', 'empty', 'one-field',
                   'hash-of-nothing', 'replay', 'stray-high-bytes']


@st.composite
def real_case(draw, tier):
    mech = draw(st.sampled_from(['ANONYMOUS', 'EXTERNAL', 'EXTERNAL', 'DBUS_COOKIE_SHA1', 'DBUS_COOKIE_SHA1',
                                 'DBUS_COOKIE_SHA1']))
    if mech == 'ANONYMOUS':
        return {'mech': mech, 'trace': draw(st.booleans()), 'creds': draw(st.sampled_from(['none', 'peer']))}
    if mech == 'EXTERNAL':
        return {'mech': mech, 'creds': draw(st.sampled_from(['peer', 'peer', 'none'])),
                'initial': draw(st.booleans()), 'peer': draw(st.integers(0, 3))}
    return {'mech': mech, 'variant': draw(st.sampled_from(COOKIE_VARIANTS)),
            'ident': draw(st.sampled_from(['name', 'uid'])),
            'nonce': draw(st.text(alphabet='abcdef0123', min_size=1, max_size=8)), 'creds': 'none',
            'prefill': draw(st.sampled_from([None, None, 'stale', 'fresh', 'both', 'damaged'])),
            'chal': draw(st.sampled_from(['lower', 'lower', 'upper', 'token']))}


def classify_real(case):
    labels = [case['mech'], case.get('variant') or case.get('creds')]
    if case['mech'] == 'EXTERNAL' and case.get('creds') == 'peer':
        labels.append('peer uid %s gid' % ('==' if _peer_ids(case)[0] == _peer_ids(case)[1] else '!='))
    return True, labels


SUBCHECKS = [
    Subcheck('scripted_enum', run_scripted, classify_scripted, enumerate=enum_scripted,
             shards={'quick': 8, 'thorough': 16},
             exhaustive_note='all sequences of length 1..4 (quick) / 1..5 (thorough) over 12 abstract lines x 3 '
                             'mechanism-outcome scripts'),
    Subcheck('scripted_random', run_scripted, classify_scripted, strategy=lambda tier: random_scripted(tier),
             n={'quick': 300, 'thorough': 3000}),
    Subcheck('near_commands', run_scripted, classify_scripted, enumerate=enum_near_commands, shards={'quick': 4, 'thorough': 4},
             exhaustive_note='9 near-commands (foreign bytes inside a command word, lower case, glued suffix, a client-side '
                             'word) and every non-protocol word the authenticators would dispatch on by name, x 7 prefixes x 4 '
                             'continuations x 2 mechanism scripts'),
    Subcheck('many_logins', run_many_logins, lambda c: (True, [c['ends'], 'n=%d' % c['n']]), enumerate=enum_many_logins,
             shards={'quick': 3, 'thorough': 3},
             exhaustive_note='150 / 400 (/ 1500) overlapping cookie logins, finished / cancelled / mixed, under a descriptor limit 48 '
                             'above current use, then the exchange open all along answers'),
    Subcheck('framing', run_framing, lambda c: (True, [c['f']]), enumerate=enum_framing,
             shards={'quick': 1, 'thorough': 1},
             exhaustive_note='listed framing faults at the 16384/16385 boundary'),
    Subcheck('real', run_real, classify_real, strategy=lambda tier: real_case(tier),
             n={'quick': 60, 'thorough': 400}),
    Subcheck('cookie_overlap', run_cookie_overlap,
             lambda c: (True, ['with_cancel'] if any(o[0] == 'cancel' for o in c['ops']) else ['all_finish']),
             enumerate=enum_cookie_overlap, shards={'quick': 4, 'thorough': 8},
             exhaustive_note='3 simultaneous DBUS_COOKIE_SHA1 exchanges of one user: all 90 orders of their start / end '
                             'events x completed-or-cancelled per exchange (quick: at most one cancelled)'),
]
