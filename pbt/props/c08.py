"""C08 -- each remote call completes exactly once with its own reply (DESIGN.md section 3, C08)."""
import itertools

from hypothesis import strategies as st

from .. import refcodec as R
from .. import simnet as N
from .. import strategies as S
from ..core import Disc, Subcheck, exc_detail, exc_key

PROPERTY_ID = 'C08'
LEVEL = 'exploration'
RULE = ('chain: a reply callback issues a further call that is answered while write() is on the stack (1-2 levels), the reply to another pending call in the same read or the next, reply sizes 0/3/40/200: every call completes once with its own value. histories on one established DBusClientConnection (in-memory transport, virtual clock): call (with/without '
        'deadline, return signature unchecked / matching / mismatching / empty, reply expected or not), reply and error '
        'reply addressed to a pending, a completed or a never-issued serial (bodies from the C01 space, each carrying a '
        'unique token), duplicate of the last reply, clock advance landing before / at / after deadlines, replies '
        'delivered to a second connection of the same process, connection loss. random: Hypothesis-drawn histories of '
        'up to 25 operations. orders: every ordering of the events {reply_i, error_i, deadline_i} of N concurrent calls '
        '(N=2 all 720 orders and N=3 with two events per call in quick; N=3 all 362880 orders in thorough), exhaustive. '
        'oracle after every operation: each Deferred fired at most once and exactly when the model says, with the value '
        'by the documented convention / RemoteError(name, message, values) / TimeOut / the loss reason of the first '
        'applicable event for that serial; pending-call table and virtual-clock timers equal the still-pending calls. '
        'Non-trivial = >=2 calls outstanding at once and an out-of-order, duplicate or unsolicited reply or a deadline '
        'race; distinct = distinct history JSON. The scripted peer writes replies in four spellings (canonical; unknown header field '
        'first; descending field order with an unknown field in the middle; unknown variant-typed field plus flag bit 0x4). '
        'close_req: the application asks for the close and the transport lingers (replies keep arriving until the loss); sync '
        'calls are answered by a peer in the same process while transport.write() is still on the stack. Every third reply arrives '
        'glued behind a duplicate of the previous one and cut 20 bytes before its end (two reads). fd_replies: replies carrying UNIX '
        'descriptors, in every order. The flags byte of each call is checked against expectReply and the autoStart default. '
        'Replies name nobody, another peer, the bus driver or this very connection as their sender.')
ASSUMPTIONS = ['timeout=0 / 0.0 / None all mean "no deadline" (what callRemote documents and does); all three spellings are generated',
               'user callbacks attached by the harness do not raise or re-enter']


class _Call:
    def __init__(self):
        self.serial = None
        self.results = []
        self.expected = None     # None while pending, else ('value', v) | ('remote', name, msg, values) | ('timeout',) | ('lost',)
        self.deadline = None
        self.rs = None
        self.rs_value = None
        self.expect_reply = True


def _convention(sig, trees):
    if not sig:
        return None
    vals = S.normal_forms(sig, trees)
    if len(vals) == 0:
        return None
    if len(vals) == 1 and sig[0] != '(':
        return vals[0]
    return vals


def _reply_outcome(call, sig, trees):
    if call.rs != 'unchecked':
        declared = call.rs_value
        if not declared:
            if sig:
                return ('remote', None, None, None)
        elif not sig or sig != declared:
            return ('remote', None, None, None)
    return ('value', _convention(sig, trees))


def _check_result(call, idx, out, where):
    exp = call.expected
    if exp is None:
        if call.results:
            out.append(Disc('fired-while-pending', '%s: call %d has result %r but no applicable event occurred' % (
                where, idx, call.results)))
        return
    if len(call.results) == 0:
        out.append(Disc('not-fired:%s' % exp[0], '%s: call %d should have completed with %r' % (where, idx, exp)))
        return
    if len(call.results) > 1:
        out.append(Disc('fired-twice', '%s: call %d results %r' % (where, idx, call.results)))
        return
    r = call.results[0]
    from twisted.python.failure import Failure
    from txdbus import error as E
    if exp[0] == 'value':
        if isinstance(r, Failure) or not R.nf_equal(r, exp[1]):
            out.append(Disc('wrong-value', '%s: call %d expected %r got %r' % (where, idx, exp[1], r)))
    elif exp[0] == 'remote':
        if not (isinstance(r, Failure) and isinstance(r.value, E.RemoteError)):
            out.append(Disc('expected-RemoteError', '%s: call %d got %r' % (where, idx, r)))
        elif exp[1] is not None:
            e = r.value
            got = (getattr(e, 'errName', '<no errName>'), getattr(e, 'message', '<no message>'), getattr(e, 'values', None))
            if got[0] != exp[1] or got[1] != exp[2] or not isinstance(got[2], (list, tuple)) or \
                    not R.nf_equal(list(got[2]), exp[3]):
                out.append(Disc('RemoteError-content', '%s: call %d expected %r got %r' % (where, idx, exp[1:], got)))
    elif exp[0] == 'timeout':
        if not (isinstance(r, Failure) and isinstance(r.value, E.TimeOut)):
            out.append(Disc('expected-TimeOut', '%s: call %d got %r' % (where, idx, r)))
    elif exp[0] == 'lost':
        if not (isinstance(r, Failure) and r is exp[1]):
            out.append(Disc('expected-loss-reason', '%s: call %d got %r' % (where, idx, r)))


def _with_sender(fields, k, rig):
    """Who answered: nobody says (a peer-to-peer link), another peer, the bus driver - or this very connection (it called an
    object it exports itself; the bus hands the reply back with the caller's own unique name as SENDER)."""
    s = [None, ':1.9', 'org.freedesktop.DBus', rig.bus_name, ':1.9'][k % 5]
    if s is not None:
        fields = dict(fields)
        fields[7] = s
        fields[6] = rig.bus_name
    return fields


def run_history(case):
    try:
        rig = N.ClientRig(unix=False)
    except N.RigFailure as e:
        return [Disc('establish.hello-call-not-completed', str(e))]
    rig2 = None
    out = []
    calls = []
    token = [0]
    last_reply = [None]
    lost = False
    closing = False
    try:
        rig.sent_messages()
        for opi, op in enumerate(case['ops']):
            kind = op[0]
            where = 'op %d %s' % (opi, kind)
            if kind == 'close_req':
                # the application asks for the connection to be closed; the transport has not closed it yet (its write
                # buffer drains, the peer has not answered the FIN): what still arrives is still delivered
                if lost or closing:
                    continue
                closing = True
                rig.transport.linger = True
                rig.conn.disconnect()
            elif kind == 'call':
                if lost or closing:
                    continue
                p = op[1]
                c = _Call()
                c.rs = p['rs']
                c.rs_value = p['rs_value']
                c.expect_reply = p['expect']
                body = S.to_py_list(p['sig'], p['trees'], p.get('pres', [])) if p['sig'] else None
                kw = {}
                if p['rs'] != 'unchecked':
                    kw['returnSignature'] = p['rs_value']
                sig_arg = p['sig'] or None
                if not p['sig']:
                    # a call without arguments has several spellings
                    sig_arg, body = [(None, None), ('', None), ('', []), (None, [])][opi % 4]
                sync = bool(p.get('sync')) and p['expect']
                if sync:
                    # a peer in the same process: its reply is delivered while transport.write() is still on the stack
                    def answer_at_once(data, rig=rig):
                        rig.transport.on_write = None
                        m = R.decode_message(data)
                        N.deliver(rig.conn, R.encode_variant(m['serial'], 2, 5000 + m['serial'], {5: m['serial']}, 's', ['sync']))
                    rig.transport.on_write = answer_at_once
                try:
                    d = rig.conn.callRemote('/o', 'M', interface='a.b', destination='c.d',
                                            signature=sig_arg, body=body, expectReply=p['expect'],
                                            timeout=p['timeout'], **kw)
                except Exception as e:
                    out.append(Disc(exc_key(e, 'callRemote'), exc_detail(e)))
                    break
                finally:
                    rig.transport.on_write = None
                d.addBoth(c.results.append)
                sent = [m for k, m in rig.sent_messages() if k == 'msg']
                if len(sent) != 1:
                    out.append(Disc('call-not-sent', '%d messages written for one call' % len(sent)))
                    break
                c.serial = sent[0]['serial']
                want_flags = 0 if p['expect'] else 1       # autoStart is left at its documented default (allowed): bit 2 clear
                if sent[0]['flags'] & 3 != want_flags:
                    out.append(Disc('call-flags', 'expectReply=%r, autoStart left at its default: flags byte %d, expected %d' % (
                        p['expect'], sent[0]['flags'], want_flags)))
                if any(o.serial == c.serial for o in calls):
                    out.append(Disc('serial-reused', str(c.serial)))
                if not p['expect']:
                    c.expected = ('value', None)
                elif sync:
                    c.expected = _reply_outcome(c, 's', ['sync'])
                elif p['timeout']:
                    c.deadline = rig.clock.seconds() + p['timeout']
                calls.append(c)
            elif kind in ('reply', 'error', 'reply2'):
                if lost and kind != 'reply2':
                    continue
                tgt = op[1]
                if tgt < 0 or not calls:
                    serial = 0x7fff0000 + (-tgt)
                    c = None
                else:
                    c = calls[tgt % len(calls)]
                    serial = c.serial
                token[0] += 1
                # (a reply's OWN serial is its sender's business: senders count independently, so consecutive replies may
                # well carry the same one - here every two do)
                if kind == 'error':
                    name, bk = op[2], op[3]
                    sig, trees = {'str': ('s', ['msg%d' % token[0]]), 'none': ('', []),
                                  'int': ('i', [token[0]]), 'str+': ('su', ['m%d' % token[0], 9]),
                                  'empty-str': ('s', [''])}[bk]
                    raw = R.encode_variant(token[0] + serial, 3, 1000 + token[0] // 2, _with_sender({4: name, 5: serial}, token[0], rig), sig, trees)
                    outcome = ('remote', name, trees[0] if (trees and isinstance(trees[0], str)) else '',
                               S.normal_forms(sig, trees) if sig else [])
                else:
                    p = op[2]
                    sig, trees = p['sig'], p['trees']
                    if p.get('token'):
                        sig, trees = 'u' + sig if len(sig) < 250 else 'u', [token[0]] + (trees if len(sig) < 250 else [])
                    raw = R.encode_variant(token[0] + serial, 2, 1000 + token[0] // 2, _with_sender({5: serial}, token[0], rig), sig, trees,
                                           little=p.get('little', True))
                    outcome = None
                if kind == 'reply2':
                    if rig2 is None:
                        rig.C.reactor = rig._saved_reactor
                        rig2 = N.ClientRig(unix=False, bus_name=':1.43')
                        rig2.C.reactor = rig.clock
                    N.deliver(rig2.conn, raw)
                else:
                    prev = last_reply[0]
                    last_reply[0] = raw
                    if c is not None and c.expected is None and c.expect_reply:
                        if kind == 'reply':
                            outcome = _reply_outcome(c, sig, trees)
                        c.expected = outcome
                        c.deadline = None
                    if prev is not None and token[0] % 3 == 0 and len(raw) > 24:
                        # how the network cuts the stream is nobody's choice: one read ends with a complete message (a
                        # duplicate of the previous reply, which completes nothing) followed by the beginning of this
                        # reply; the rest comes with the next read
                        k = max(1, min(20, len(raw) // 2))
                        N.deliver(rig.conn, prev + raw[:-k])
                        N.deliver(rig.conn, raw[-k:])
                    else:
                        N.deliver(rig.conn, raw)
                    if rig.transport.disconnected and not lost:
                        out.append(Disc('connection-dropped-by-reply', where))
                        break
            elif kind == 'dup':
                if lost or last_reply[0] is None:
                    continue
                N.deliver(rig.conn, last_reply[0])
            elif kind == 'noise':
                # other traffic on the same connection: a signal, or a method call from a peer, whose OWN serial happens to
                # equal the serial of one of our pending calls - neither is a reply and neither completes anything
                if lost:
                    continue
                pend_serials = [c.serial for c in calls if c.expected is None] or [1]
                sn = pend_serials[op[2] % len(pend_serials)]
                if op[1] == 'signal':
                    raw = R.encode_message(4, sn, {1: '/p', 2: 'x.y', 3: 'Sig', 7: ':1.9'}, 's', ['n'])
                else:
                    raw = R.encode_message(1, sn, {1: '/not/exported', 2: 'x.y', 3: 'M', 7: ':1.9', 6: ':1.1'}, 'u', [sn])
                N.deliver(rig.conn, raw)
                rig.sent_messages()      # (the error reply to the foreign call, if any, is not our subject)
                if rig.transport.disconnected:
                    out.append(Disc('connection-dropped-by-unrelated-message', where))
                    break
            elif kind == 'advance':
                now = rig.clock.seconds() + op[1]
                # model: every pending deadline <= now expires, earliest first
                for c in sorted([c for c in calls if c.expected is None and c.deadline is not None],
                                key=lambda c: c.deadline):
                    if c.deadline <= now:
                        c.expected = ('timeout',)
                        c.deadline = None
                rig.clock.advance(op[1])
            elif kind == 'lose':
                if lost:
                    continue
                lost = True
                reason = N.lost_reason(opi)
                for c in calls:
                    if c.expected is None:
                        c.expected = ('lost', reason)
                        c.deadline = None
                N.close(rig.conn, reason)
            # invariants after every step
            for i, c in enumerate(calls):
                _check_result(c, i, out, where)
            pend = {c.serial for c in calls if c.expected is None}
            raw_table = getattr(rig.conn, '_pendingCalls', None)     # the bookkeeping named in the property's anchors
            if raw_table is not None:
                table = set(raw_table.keys())
                if table - pend:
                    out.append(Disc('pending-table', '%s: bookkeeping left for completed calls %r (still pending %r)' % (
                        where, sorted(table - pend), sorted(pend))))
            timers = sorted(dc.getTime() for dc in rig.clock.getDelayedCalls())
            want = sorted(c.deadline for c in calls if c.expected is None and c.deadline is not None)
            if timers != want:
                out.append(Disc('timers', '%s: delayed calls at %r, pending deadlines %r' % (where, timers, want)))
            if out:
                break
    except Exception as e:
        out.append(Disc(exc_key(e, 'history.exception'), exc_detail(e)))
    finally:
        rig.close_rig()
        if rig2 is not None:
            rig2.C.reactor = rig._saved_reactor
    return out


def classify_history(case):
    labels = []
    outstanding = 0
    maxout = 0
    interesting = False
    ncalls = 0
    done = set()
    for op in case['ops']:
        if op[0] == 'call':
            ncalls += 1
            if op[1]['expect']:
                outstanding += 1
            maxout = max(maxout, outstanding)
        elif op[0] in ('reply', 'error'):
            if ncalls and op[1] >= 0:
                t = op[1] % ncalls
                if t in done:
                    interesting = True
                    labels.append('reply_to_completed')
                else:
                    if t != min(set(range(ncalls)) - done):
                        interesting = True
                        labels.append('out_of_order')
                    done.add(t)
                    outstanding = max(0, outstanding - 1)
            else:
                interesting = True
                labels.append('unsolicited')
        elif op[0] == 'dup':
            interesting = True
            labels.append('duplicate')
        elif op[0] == 'noise':
            labels.append('unrelated_traffic')
        elif op[0] == 'advance':
            labels.append('advance')
            if any(o[0] == 'call' and o[1]['timeout'] for o in case['ops']):
                interesting = True
        elif op[0] == 'lose':
            labels.append('lose')
        elif op[0] == 'close_req':
            labels.append('close_requested')
        elif op[0] == 'reply2':
            labels.append('second_connection')
    if maxout >= 2:
        labels.append('concurrent>=2')
    return maxout >= 2 and interesting, sorted(set(labels))


_small_body = st.one_of(
    st.just(('', [])),
    S.typed_values(max_types=2, depth=1),
    st.sampled_from([('(ii)', [[1, 2]]), ('s', ['x']), ('as', [[]]), ('v', [['s', 'q']]), ('ii', [1, 2]),
                     ('a(ii)', [[[1, 2], [3, 4]]]), ('a(si)', [[]]), ('a{s(ii)}', [[['k', [1, 2]]]]), ('aa(y)', [[[[7]]]]),
                     ('(i(ss))', [[1, ['a', 'b']]]), ('av', [[['(ii)', [1, 2]]]])]),
)


@st.composite
def history(draw, tier):
    ops = []
    n = draw(st.integers(2, 25))
    for _ in range(n):
        k = draw(st.sampled_from(['call', 'call', 'call', 'reply', 'reply', 'reply', 'error', 'advance', 'dup', 'noise',
                                  'reply2', 'lose' if draw(st.integers(0, 5)) == 0 else 'reply',
                                  'close_req' if draw(st.integers(0, 3)) == 0 else 'call']))
        if k == 'noise':
            ops.append(['noise', draw(st.sampled_from(['signal', 'call'])), draw(st.integers(0, 3))])
            continue
        if k == 'call':
            sig, trees = draw(_small_body)
            rs = draw(st.sampled_from(['unchecked', 'unchecked', 'matching', 'mismatching', 'prefix', 'empty']))
            ops.append(['call', {'sig': sig, 'trees': trees, 'timeout': draw(st.sampled_from([None, None, 1, 2, 5, 0.5, 0, 0.0])),
                                 'rs': rs, 'rs_value': None, 'expect': draw(st.integers(0, 6)) != 0,
                                 'sync': draw(st.integers(0, 5)) == 0}])
        elif k in ('reply', 'reply2'):
            sig, trees = draw(_small_body)
            ops.append([k, draw(st.one_of(st.integers(0, 30), st.just(-1))),
                        {'sig': sig, 'trees': trees, 'token': draw(st.booleans()), 'little': draw(st.booleans())}])
        elif k == 'error':
            ops.append(['error', draw(st.one_of(st.integers(0, 30), st.just(-2))), draw(S.error_name()),
                        draw(st.sampled_from(['str', 'none', 'int', 'str+', 'empty-str']))])
        elif k == 'advance':
            ops.append(['advance', draw(st.sampled_from([0.5, 1, 1, 2, 3, 10]))])
        else:
            ops.append([k])
    return _fix_rs({'ops': ops})


def _fix_rs(case):
    """The declared return signature of a call depends on the reply it will get: resolve
    'matching'/'mismatching' against the first reply addressed to that call."""
    calls = []
    for op in case['ops']:
        if op[0] == 'call':
            calls.append(op[1])
    ncalls = 0
    first_reply = {}
    seen = 0
    for op in case['ops']:
        if op[0] == 'call':
            seen += 1
        elif op[0] == 'reply' and seen and op[1] >= 0:
            t = op[1] % seen
            if t not in first_reply:
                p = op[2]
                sig = p['sig']
                if p.get('token'):
                    sig = 'u' + sig if len(sig) < 250 else 'u'
                first_reply[t] = sig
    for i, c in enumerate(calls):
        sig = first_reply.get(i, 's')
        if c.get('sync') and c['expect']:
            sig = 's'       # answered at once by the synchronous peer
        if c['rs'] == 'matching':
            c['rs_value'] = sig
            if not sig:
                c['rs'] = 'empty'
                c['rs_value'] = ''
        elif c['rs'] == 'mismatching':
            c['rs_value'] = (sig + 'y') if sig != 'y' else 'i'
        elif c['rs'] == 'prefix':      # declared = a proper prefix of what the reply carries
            types = R.split_inner(sig)
            c['rs_value'] = types[0] if len(types) >= 2 else ((sig + 'y') if sig != 'y' else 'i')
        elif c['rs'] == 'empty':
            c['rs_value'] = ''
    del ncalls
    return case


def enum_orders(tier):
    def mk(n, kinds):
        events = [(k, i) for i in range(n) for k in kinds]
        for perm in itertools.permutations(events):
            # deadlines get increasing times in the order the permutation expires them
            rank = {}
            for k, i in perm:
                if k == 'T':
                    rank[i] = len(rank) + 1
            ops = []
            for i in range(n):
                ops.append(['call', {'sig': 'u', 'trees': [i], 'timeout': 10 * rank[i] if i in rank else None,
                                     'rs': 'unchecked', 'rs_value': None, 'expect': True}])
            t = 0
            for k, i in perm:
                if k == 'R':
                    ops.append(['reply', i, {'sig': 's', 'trees': ['r%d' % i], 'token': True}])
                elif k == 'E':
                    ops.append(['error', i, 'org.verif.E%d' % i, 'str'])
                elif k == 'T':
                    ops.append(['advance', 10 * rank[i] - t])
                    t = 10 * rank[i]
                elif k == 'D':
                    ops.append(['dup'])
            yield {'ops': ops}
    if tier == 'quick':
        yield from mk(2, ('R', 'E', 'T'))
        for kinds in itertools.product(('R', 'E'), repeat=1):
            yield from mk(3, (kinds[0], 'T'))
        yield from mk(2, ('R', 'T', 'D'))
    else:
        yield from mk(2, ('R', 'E', 'T'))
        yield from mk(3, ('R', 'E', 'T'))
        yield from mk(2, ('R', 'E', 'T', 'D'))


def enum_resend(tier):
    for reply in ('in-time', 'late', 'error-in-time'):
        for t2 in (5, None):
            for extra in (0, 2):
                yield {'reply': reply, 'timeout2': t2, 'other_calls': extra}


def run_resend(case):
    """A call times out and its errback sends the very same message object again (a retry keeps its serial): the second
    attempt is an outstanding call like any other - it completes with its own reply, or with its own deadline."""
    from twisted.python.failure import Failure
    from txdbus import error as E
    from txdbus import message as MSG
    try:
        rig = N.ClientRig(unix=False)
    except N.RigFailure as e:
        return [Disc('establish.hello-call-not-completed', str(e))]
    out = []
    try:
        rig.sent_messages()
        others = []
        for i in range(case['other_calls']):
            r = []
            rig.conn.callRemote('/o', 'Other', interface='a.b', destination='c.d', timeout=50).addBoth(r.append)
            others.append(r)
        mcall = MSG.MethodCallMessage('/o', 'M', interface='a.b', destination='c.d')
        first, second = [], []

        def retry(f):
            first.append(f)
            d2 = rig.conn.callRemoteMessage(mcall, case['timeout2'])
            d2.addBoth(second.append)
        rig.conn.callRemoteMessage(mcall, 2).addErrback(retry)
        try:
            rig.clock.advance(3)
        except Exception as e:
            return [Disc(exc_key(e, 'resend.timeout-raises'), exc_detail(e))]
        if len(first) != 1 or not first[0].check(E.TimeOut):
            return [Disc('resend.first-attempt', repr(first))]
        rig.sent_messages()
        serial = mcall.serial
        want = None
        try:
            if case['reply'] == 'in-time':
                N.deliver(rig.conn, R.encode_message(2, 900, {5: serial}, 's', ['done']))
                want = 'done'
            elif case['reply'] == 'error-in-time':
                N.deliver(rig.conn, R.encode_message(3, 900, {5: serial, 4: 'org.verif.Error.E'}, 's', ['no']))
                want = E.RemoteError
            else:
                rig.clock.advance((case['timeout2'] or 1) + 1)
                want = E.TimeOut if case['timeout2'] else None
                N.deliver(rig.conn, R.encode_message(2, 900, {5: serial}, 's', ['late']))
                if case['timeout2'] is None:
                    want = 'late'
            rig.clock.advance(1000)
        except Exception as e:
            out.append(Disc(exc_key(e, 'resend.raises'), exc_detail(e)))
        if out:
            pass
        elif len(second) != 1:
            out.append(Disc('resend.second-attempt-count:%d' % min(len(second), 2), 'case %r: %r' % (case, second)))
        elif isinstance(want, str):
            # callRemoteMessage hands back the reply message itself (callRemote would unwrap it)
            got = getattr(second[0], 'body', second[0])
            if got != [want]:
                out.append(Disc('resend.second-attempt-value', 'expected a reply carrying %r got %r' % (want, second[0])))
        elif want is not None and not (isinstance(second[0], Failure) and second[0].check(want)):
            out.append(Disc('resend.second-attempt-outcome', 'expected %s got %r' % (want.__name__, second[0])))
        if rig.transport.disconnected:
            out.append(Disc('resend.connection-dropped', ''))
        left = [dc for dc in rig.clock.getDelayedCalls()]
        if left:
            out.append(Disc('resend.timers-left', repr(left)))
        table = getattr(rig.conn, '_pendingCalls', None)
        if table is not None and serial in table:
            out.append(Disc('resend.bookkeeping-left', 'serial %d still registered' % serial))
        for r in others:
            if not (len(r) == 1 and isinstance(r[0], Failure) and r[0].check(E.TimeOut)):
                out.append(Disc('resend.other-call', repr(r)))
    except Exception as e:
        out.append(Disc(exc_key(e, 'resend.exception'), exc_detail(e)))
    finally:
        rig.close_rig()
    return out


def enum_fd_replies(tier):
    """Replies that carry UNIX descriptors (values of type h): each call completes with the descriptor its OWN reply
    brought, in every order of the replies, descriptors delivered ahead of all bytes or just before their message."""
    for n in (2, 3):
        for order in itertools.permutations(range(n)):
            for early in (False, True):
                for kind in ('h', 'hs', 'ah'):
                    yield {'n': n, 'order': list(order), 'early': early, 'kind': kind}


def run_fd_replies(case):
    try:
        rig = N.ClientRig(unix=True)
    except N.RigFailure as e:
        return [Disc('fd_replies.establish-failed', str(e))]
    out = []
    try:
        rig.sent_messages()
        calls = []
        for i in range(case['n']):
            res = []
            rig.conn.callRemote('/o', 'Get', interface='a.b', destination='c.d').addBoth(res.append)
            sent = [m for k, m in rig.sent_messages() if k == 'msg']
            calls.append((sent[0]['serial'], res))
        fds = {i: 100 + i for i in range(case['n'])}
        if case['early']:
            for i in case['order']:
                rig.conn.fileDescriptorReceived(fds[i])
        for i in case['order']:
            serial, res = calls[i]
            if not case['early']:
                rig.conn.fileDescriptorReceived(fds[i])
            sig, trees = {'h': ('h', [0]), 'hs': ('hs', [0, 'x']), 'ah': ('ah', [[0]])}[case['kind']]
            N.deliver(rig.conn, R.encode_variant(serial, 2, 7000 + i, {5: serial, 9: 1}, sig, trees))
        for i in range(case['n']):
            want = {'h': fds[i], 'hs': [fds[i], 'x'], 'ah': [fds[i]]}[case['kind']]
            res = calls[i][1]
            if len(res) != 1 or not R.nf_equal(res[0], want):
                out.append(Disc('fd_replies.wrong-descriptor', 'call %d (replies in order %r, descriptors %s) completed with %r, its '
                                'reply carried descriptor %d' % (i, case['order'], 'all first' if case['early'] else 'one by one',
                                                                res, fds[i])))
        left = list(getattr(rig.conn, '_receivedFDs', []))
        if left:
            out.append(Disc('fd_replies.leftover-descriptors', repr(left)))
    except Exception as e:
        out.append(Disc(exc_key(e, 'fd_replies.exception'), exc_detail(e)))
    finally:
        rig.close_rig()
    return out


def enum_chain(tier):
    """A reply callback that calls on: the callback of call A issues call C to a peer in the same process, whose reply is
    delivered while transport.write() is still on the stack - that is, while the reply to A is still being handled and
    (when the replies to A and B came in one read) the reply to B still waits in the receive buffer.  Reply sizes differ."""
    sizes = (0, 3, 40, 200)
    for la in sizes:
        for lb in sizes:
            for lc in (0, 40):
                for glued in (True, False):
                    for depth in (1, 2):
                        yield {'la': la, 'lb': lb, 'lc': lc, 'glued': glued, 'depth': depth}


def run_chain(case):
    try:
        rig = N.ClientRig(unix=False)
    except N.RigFailure as e:
        return [Disc('chain.establish-failed', str(e))]
    out = []
    try:
        rig.sent_messages()
        results = {'A': [], 'B': [], 'C1': [], 'C2': []}

        def text(tag, n):
            return (tag + ':' + 'x' * n)

        def call_on(level):
            # issued from inside a reply callback; answered before write() returns
            def answer_at_once(data):
                rig.transport.on_write = None
                m = R.decode_message(data)
                N.deliver(rig.conn, R.encode_variant(level, 2, 8000 + level, {5: m['serial']}, 's',
                                                     [text('C%d' % level, case['lc'])]))
            rig.transport.on_write = answer_at_once
            try:
                d = rig.conn.callRemote('/o', 'Next', interface='a.b', destination='c.d')
            finally:
                rig.transport.on_write = None
            d.addBoth(results['C%d' % level].append)
            if level < case['depth']:
                d.addCallback(lambda _: call_on(level + 1))

        da = rig.conn.callRemote('/o', 'A', interface='a.b', destination='c.d')
        sa = [m for k, m in rig.sent_messages() if k == 'msg'][0]['serial']
        db = rig.conn.callRemote('/o', 'B', interface='a.b', destination='c.d')
        sb = [m for k, m in rig.sent_messages() if k == 'msg'][0]['serial']
        da.addBoth(results['A'].append)
        da.addCallback(lambda _: call_on(1))
        db.addBoth(results['B'].append)
        ra = R.encode_variant(1, 2, 7001, {5: sa}, 's', [text('A', case['la'])])
        rb = R.encode_variant(2, 2, 7002, {5: sb}, 's', [text('B', case['lb'])])
        if case['glued']:
            N.deliver(rig.conn, ra + rb)
        else:
            N.deliver(rig.conn, ra)
            N.deliver(rig.conn, rb)
        want = {'A': text('A', case['la']), 'B': text('B', case['lb']), 'C1': text('C1', case['lc'])}
        if case['depth'] == 2:
            want['C2'] = text('C2', case['lc'])
        for k in sorted(want):
            if results[k] != [want[k]]:
                out.append(Disc('chain.%s' % ('not-completed' if not results[k] else 'wrong-completion'),
                                'call %s completed with %r, its reply carried %r (replies to A and B %s, %d calls issued from '
                                'reply callbacks and answered inside write())' % (
                                    k, [repr(r)[:80] for r in results[k]], want[k][:40],
                                    'in one read' if case['glued'] else 'in two reads', case['depth'])))
        if rig.transport.disconnected:
            out.append(Disc('chain.connection-dropped', repr(case)))
    except Exception as e:
        out.append(Disc(exc_key(e, 'chain.exception'), exc_detail(e)))
    finally:
        rig.close_rig()
    return out


SUBCHECKS = [
    Subcheck('random', run_history, classify_history, strategy=lambda tier: history(tier),
             n={'quick': 300, 'thorough': 3000}),
    Subcheck('orders', run_history, classify_history, enumerate=enum_orders, shards={'quick': 4, 'thorough': 16},
             exhaustive_note='every ordering of {reply_i, error_i, deadline_i} for 2 calls, of {reply|error_i, deadline_i} '
                             'for 3 calls (quick); of all three event kinds for 3 calls = 362880 orders (thorough)'),
    Subcheck('fd_replies', run_fd_replies, lambda c: (True, [c['kind'], 'early' if c['early'] else 'just_in_time']),
             enumerate=enum_fd_replies, shards={'quick': 1, 'thorough': 1},
             exhaustive_note='2-3 calls answered, in every order, by replies carrying one UNIX descriptor each (h, hs, ah)'),
    Subcheck('chain', run_chain, lambda c: (True, ['glued' if c['glued'] else 'separate', 'depth%d' % c['depth']] +
                                            (['reply_sizes_differ'] if c['la'] != c['lb'] else [])),
             enumerate=enum_chain, shards={'quick': 2, 'thorough': 2},
             exhaustive_note='reply sizes of A, B (4 each) and C (2) x replies to A and B in one read or two x 1-2 calls issued '
                             'from reply callbacks and answered synchronously'),
    Subcheck('resend', run_resend, lambda c: (True, ['reply_' + c['reply']]), enumerate=enum_resend, shards={'quick': 1, 'thorough': 1},
             exhaustive_note='a timed-out call whose errback re-sends the same message object: second attempt answered in time '
                             '/ by an error / too late, with or without a second deadline, alone or next to other calls'),
]
