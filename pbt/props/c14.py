"""C14 -- built-in bus: right peer, true sender (DESIGN.md section 3, C14)."""
import itertools

from hypothesis import strategies as st

from .. import refcodec as R
from .. import simnet as N
from .. import strategies as S
from ..core import Disc, Subcheck, exc_detail, exc_key
from . import c12

PROPERTY_ID = 'C14'
LEVEL = 'exploration'
RULE = ('histories on the real Bus with up to 4 raw scripted clients: connect+Hello, disconnect, uncontested RequestName / '
        'ReleaseName, owners that allow replacement and take-overs by other clients (the queue the bus lists afterwards '
        'is adopted where the statement leaves it open), AddMatch / RemoveMatch (rules from the C12 generator; a third of '
        'the broadcast messages are derived from one of the rules with one constrained place perturbed), and bursts of 1-4 in-flight messages: unicast '
        'messages of all four types addressed to a unique name, an owned well-known name, an unowned name or the bus '
        'itself (arbitrary calls, and real questions to the bus driver - GetNameOwner, ListNames, a second Hello, '
        'RequestName of invalid names, RemoveMatch of a rule never added ... - each answered exactly once and GetNameOwner '
        'in agreement with the model), with the sender field absent, true or forged, in either byte order, and broadcast signals; the bytes of a '
        'burst sit in per-client queues and the bus reads them in a drawn interleaving of (client, chunk size) choices. '
        'interleave: every order in which the bus can read 2-3 in-flight messages of 2-3 clients at message granularity, '
        'exhaustive; random: Hypothesis-drawn histories with byte-level chunking. oracle (model of clients, name owners '
        'and rule sets): after every step each client inbox equals the expectation - a unicast message arrives exactly '
        'once at the owner of its destination and nowhere else, equal in type, serial, flags, fields and body except '
        'sender = true unique name of the originator; per (sender, destination) order is kept; unique names are pairwise '
        'distinct over the whole history; a method call to org.freedesktop.DBus gets exactly one reply from the bus and '
        'reaches no client; a broadcast reaches exactly the set of connections holding a rule the C12 reference matcher '
        'accepts. Non-trivial = >=3 clients with a forged sender, or a destination whose owner changed earlier, or a '
        'broadcast with a near-miss rule; distinct = distinct history JSON. Messages come in the four header spellings of '
        'refcodec.encode_variant (unknown fields, free field order, flag bit 0x4); every third peer leaves INTERFACE out of its Hello '
        'and every fifth call to the bus driver carries none. Some rules name a sender (unique or well-known): a rule naming the '
        'sending connection must let the signal through.')
ASSUMPTIONS = ['how many copies of a broadcast a connection with several matching rules receives is not asserted',
               'sender= in a match rule is not among the constraints the statements enumerate: a rule naming the sending '
               'connection (by unique name, or by a well-known name it owns when the signal is sent) must let the signal through; '
               'whether a rule naming another sender keeps it away is not asserted',
               'the answer to a message for an unowned destination is not asserted, only that no client receives it']

BUS = 'org.freedesktop.DBus'
WK = ['org.verif.svc-0', 'org.verif.S1']      # bus names may contain a hyphen


def _msg_fields(m, dest):
    f = {}
    t = m['type']
    if t in (1, 4):
        f[1] = m['path']
        f[3] = m['member']
        if m.get('interface') is not None or t == 4:
            f[2] = m.get('interface') or 'org.verif.A'
    if t in (2, 3):
        f[5] = m.get('reply_serial', 9)
    if t == 3:
        f[4] = 'org.verif.Err'
    if dest is not None:
        f[6] = dest
    return f


def _rule_text(rule):
    pairs = list(c12._expected_text_constraints(rule).items())
    if rule.get('sender') is not None:
        pairs.insert(1 if pairs and pairs[0][0] == 'type' else 0, ('sender', rule['sender']))
    return R.format_match_rule(pairs)


def run_history(case):
    try:
        rig = N.BusRig()
    except Exception as e:
        return [Disc(exc_key(e, 'rig.exception'), exc_detail(e))]
    out = []
    clients = {}          # id -> RawClient
    live = []
    names_seen = []
    owner = {}            # well-known name -> client id
    waiting = {}          # well-known name -> client ids queued behind the owner
    replaceable = set()   # well-known names whose current owner allowed replacement
    rules = {}            # client id -> list of rule dicts
    next_id = 0

    def connect():
        nonlocal next_id
        c = rig.attach()
        clients[next_id] = c
        live.append(next_id)
        rules[next_id] = []
        if c.name in names_seen:
            out.append(Disc('unique-name-reused', '%s handed out twice (%r)' % (c.name, names_seen)))
        if not R.is_bus_name(c.name) or not c.name.startswith(':'):
            out.append(Disc('unique-name-invalid', repr(c.name)))
        names_seen.append(c.name)
        next_id += 1

    try:
        for _ in range(case['nclients']):
            connect()
        for si, op in enumerate(case['ops']):
            kind = op[0]
            where = 'step %d %s' % (si, kind)
            for c in clients.values():
                c.inbox[:] = []
            if kind == 'connect':
                if len(live) < 4:
                    connect()
                continue
            if not live:
                continue
            if kind == 'disconnect':
                ci = live[op[1] % len(live)]
                clients[ci].disconnect()
                live.remove(ci)
                for n in list(waiting):
                    if ci in waiting[n]:
                        waiting[n].remove(ci)
                for n in [n for n, o in owner.items() if o == ci]:
                    del owner[n]
                    replaceable.discard(n)
                    if waiting.get(n):
                        owner[n] = waiting[n].pop(0)
                rules[ci] = []
                continue
            if kind in ('own', 'ownr'):
                ci = live[op[1] % len(live)]
                name = WK[op[2] % 2]
                if name in owner:
                    continue     # contention is C13's business
                r = clients[ci].call_bus('RequestName', 'su', [name, 4 | (1 if kind == 'ownr' else 0)])
                if r is None or r['type'] != 2 or r['body'] != [1]:
                    out.append(Disc('own.refused', '%s: %r' % (where, r and r['body'])))
                    break
                owner[name] = ci
                if kind == 'ownr':
                    replaceable.add(name)
                continue
            if kind == 'takeover':
                # another client asks to replace the owner: succeeds exactly when the owner allowed it
                name = WK[op[2] % 2]
                ci = live[op[1] % len(live)]
                if name not in owner or owner[name] == ci:
                    continue
                r = clients[ci].call_bus('RequestName', 'su', [name, 2])
                if name in replaceable:
                    if r is None or r['type'] != 2 or r['body'] != [1]:
                        out.append(Disc('takeover.refused', '%s: %r' % (where, r and r['body'])))
                        break
                    old = owner[name]
                    owner[name] = ci
                    replaceable.discard(name)
                    w = waiting.setdefault(name, [])
                    if ci in w:
                        w.remove(ci)
                    # whether the displaced owner now waits behind the new one is not stated: adopt what the bus lists
                    q = clients[ci].call_bus('ListQueuedOwners', 's', [name])
                    listed = q['body'][0] if q is not None and q['type'] == 2 and q['body'] else None
                    ids = None
                    if isinstance(listed, list):
                        byname = {clients[x].name: x for x in live}
                        ids = [byname.get(n, n) for n in listed]
                    if not ids or ids[0] != ci or not (ids[1:] == w or (old in ids[1:] and [x for x in ids[1:] if x != old] == w)):
                        out.append(Disc('takeover.queue', '%s: queue listed as %r; new owner %r, waiting %r, displaced %r' % (
                            where, ids, ci, w, old)))
                        break
                    waiting[name] = ids[1:]
                else:
                    if r is None or r['type'] != 2 or r['body'] != [2]:
                        out.append(Disc('takeover.not-queued', '%s: %r' % (where, r and r['body'])))
                        break
                    if ci not in waiting.setdefault(name, []):
                        waiting[name].append(ci)
                continue
            if kind == 'wait':
                # a second client queues for an owned name (flags 0): the owner does not change now
                name = WK[op[2] % 2]
                ci = live[op[1] % len(live)]
                if name not in owner or owner[name] == ci or ci in waiting.get(name, []):
                    continue
                r = clients[ci].call_bus('RequestName', 'su', [name, 0])
                if r is None or r['type'] != 2 or r['body'] != [2]:
                    out.append(Disc('wait.not-queued', '%s: %r' % (where, r and r['body'])))
                    break
                waiting.setdefault(name, []).append(ci)
                continue
            if kind == 'disown':
                name = WK[op[2] % 2]
                if name not in owner:
                    continue
                r = clients[owner[name]].call_bus('ReleaseName', 's', [name])
                if r is None or r['type'] != 2 or r['body'] != [1]:
                    out.append(Disc('disown.refused', '%s: %r' % (where, r and r['body'])))
                    break
                del owner[name]
                replaceable.discard(name)
                if waiting.get(name):
                    owner[name] = waiting[name].pop(0)
                continue
            if kind == 'addmatch':
                ci = live[op[1] % len(live)]
                rule = case['rules'][op[2] % len(case['rules'])]
                if len(op) > 3:
                    rule = dict(rule, sender=WK[int(op[3][2:])] if str(op[3]).startswith('wk') else clients[op[3]].name)
                elif (op[1] + op[2]) % 3 == 2:
                    # the rule also names a SENDER: a well-known name (whoever owns it when the signal is sent - owned now or
                    # not) or a unique name
                    rule = dict(rule, sender=WK[op[2] % 2] if op[1] % 2 else clients[live[op[2] % len(live)]].name)
                text = _rule_text(rule)
                r = clients[ci].call_bus('AddMatch', 's', [text])
                if r is None or r['type'] != 2:
                    out.append(Disc('addmatch.refused', '%s: rule %r -> %r' % (where, text, r and r['body'])))
                    break
                rules[ci].append(rule)
                continue
            if kind == 'removematch':
                ci = live[op[1] % len(live)]
                if not rules[ci]:
                    continue
                rule = rules[ci][op[2] % len(rules[ci])]
                text = _rule_text(rule)
                r = clients[ci].call_bus('RemoveMatch', 's', [text])
                if r is None or r['type'] != 2:
                    out.append(Disc('removematch.refused', '%s: rule %r -> %r' % (where, text, r and (r['fields'].get(4), r['body']))))
                    break
                rules[ci].remove(rule)
                continue
            if kind != 'burst':
                continue
            # ---- a burst of in-flight messages
            queues = {ci: b'' for ci in live}
            bounds = {ci: [] for ci in live}      # absolute end offsets of the queued messages
            consumed = {ci: 0 for ci in live}
            sent = []      # (sender id, abstract, dest string, serial, expected recipients set or id)
            for bi, b in enumerate(op[1]):
                ci = live[b['from'] % len(live)]
                c = clients[ci]
                m = b['msg']
                dk = b['dest']
                if b.get('busq'):
                    # a real question to the bus driver; its name argument is resolved against the live history
                    qname, argk, argi = b['busq']
                    target = None
                    if argk == 'wk':
                        target = WK[argi % 2]
                    elif argk == 'unique':
                        target = clients[live[argi % len(live)]].name
                    elif argk == 'dead':
                        target = ':1.9999'
                    elif argk == 'bad':
                        target = ['', ':1.7', 'no-dot', '.x.y'][argi % 4]
                    sig, trees = {'GetNameOwner': ('s', [target]), 'NameHasOwner': ('s', [target]),
                                  'ListQueuedOwners': ('s', [target]), 'ListNames': ('', []), 'GetId': ('', []),
                                  'Hello': ('', []), 'RequestName': ('su', [target, 4]),
                                  'ReleaseName': ('s', [target]),
                                  'RemoveMatch': ('s', ["type='signal',member='NeverAdded%d'" % argi]),
                                  'GetConnectionUnixUser': ('s', [target])}[qname]
                    m = {'type': 1, 'path': '/org/freedesktop/DBus', 'interface': BUS, 'member': qname, 'sig': sig,
                         'trees': trees}
                    dk = 'bus'
                    b = dict(b, no_reply=False, busq_target=target)
                if dk == 'unique':
                    dest = clients[live[b['to'] % len(live)]].name
                elif dk == 'wk':
                    dest = WK[b['to'] % 2]
                elif dk == 'bus':
                    dest = BUS
                elif dk == 'dead':
                    dest = ':1.9999'
                else:
                    dest = None
                if dest is None and m['type'] != 4:
                    m = dict(m, type=4)
                f = _msg_fields(m, dest)
                if b['sender'] == 'true':
                    f[7] = c.name
                elif b['sender'] == 'forged':
                    others = [clients[x].name for x in live if x != ci] + [':1.4242']
                    f[7] = others[b['to'] % len(others)]
                elif b['sender'] == 'forged-wk':
                    # a well-known name, preferably one the originator itself owns or is waiting for
                    mine = [n for n in WK if owner.get(n) == ci or ci in waiting.get(n, [])]
                    f[7] = (mine or WK)[b['to'] % len(mine or WK)]
                elif b['sender'] == 'forged-bus':
                    f[7] = BUS
                c.serial += 1
                serial = c.serial
                flags = (1 if b.get('no_reply') else 0) | (2 if b.get('no_auto') else 0)
                raw = R.encode_variant(serial + ci, m['type'], serial, f, m['sig'], m['trees'], little=b.get('little', True), flags=flags)
                queues[ci] += raw
                bounds[ci].append(len(queues[ci]))
                sent.append({'from': ci, 'type': m['type'], 'fields': f, 'dest': dest, 'serial': serial, 'flags': flags,
                             'sig': m['sig'], 'trees': m['trees'], 'abstract': dict(m, destination=dest),
                             'busq': b.get('busq'), 'busq_target': b.get('busq_target')})
            # the bus reads the queues in the drawn interleaving
            sched = op[2] or [[0, 100000]]
            k = 0
            guard = 0
            while any(queues.values()) and guard < 10000:
                guard += 1
                who, n = sched[k % len(sched)]
                k += 1
                cands = [ci for ci in live if queues[ci]]
                ci = cands[who % len(cands)]
                if n == 0:      # up to the end of that client's current message
                    n = bounds[ci][0] - consumed[ci]
                n = max(1, n)
                chunk, queues[ci] = queues[ci][:n], queues[ci][n:]
                consumed[ci] += len(chunk)
                while bounds[ci] and bounds[ci][0] <= consumed[ci]:
                    bounds[ci].pop(0)
                N.deliver(clients[ci].proto, chunk)
                if clients[ci].transport.disconnected:
                    out.append(Disc('burst.bus-dropped-sender', '%s: connection of %s lost while sending' % (where, clients[ci].name)))
                    break
            if out:
                break
            rig.pump_all()
            # ---- expectations
            for ci in list(live):
                inbox = clients[ci].inbox
                exp_unicast = []
                for s in sent:
                    d = s['dest']
                    if d is None or d == BUS:
                        continue
                    tgt = None
                    if d.startswith(':'):
                        tgt = next((x for x in live if clients[x].name == d), None)
                    else:
                        tgt = owner.get(d)
                    if tgt == ci:
                        exp_unicast.append(s)
                # messages the bus itself originates (replies, NameAcquired ...) carry no client's name as sender
                got_unicast = [m for m in inbox if m['fields'].get(6) is not None and m['fields'].get(6) != BUS
                               and m['fields'].get(7) not in (None, BUS)]
                # match by (true sender, serial)
                keyf = lambda s: (clients[s['from']].name, s['serial'])   # noqa: E731
                want_keys = [keyf(s) for s in exp_unicast]
                got_keys = [(m['fields'].get(7), m['serial']) for m in got_unicast]
                for gk in set(got_keys):
                    if got_keys.count(gk) > want_keys.count(gk):
                        mine = gk in want_keys
                        out.append(Disc('unicast.%s' % ('delivered-twice' if mine else 'delivered-to-wrong-peer'),
                                        '%s: %s received message %r (expected here: %r; its match rules %r)' % (
                                            where, clients[ci].name, gk, want_keys, rules[ci])))
                for wk_ in set(want_keys):
                    if got_keys.count(wk_) < want_keys.count(wk_):
                        forged = [m for m in got_unicast if m['serial'] == wk_[1]]
                        out.append(Disc('unicast.%s' % ('sender-not-overwritten' if forged else 'not-delivered'),
                                        '%s: %s should have received %r; got %r' % (where, clients[ci].name, wk_, got_keys)))
                if out:
                    break
                # per-sender order and content
                for sender in {s['from'] for s in exp_unicast}:
                    ws = [s for s in exp_unicast if s['from'] == sender]
                    gs = [m for m in got_unicast if m['fields'].get(7) == clients[sender].name]
                    if [s['serial'] for s in ws] != [m['serial'] for m in gs]:
                        out.append(Disc('unicast.order', '%s: from %s expected serials %r got %r' % (
                            where, clients[sender].name, [s['serial'] for s in ws], [m['serial'] for m in gs])))
                        break
                    for s, m in zip(ws, gs):
                        wf = dict(s['fields'])
                        wf[7] = clients[sender].name
                        if s['sig']:
                            wf[8] = s['sig']
                        gf = dict(m['fields'])
                        if m['type'] != s['type'] or gf != wf or m['body'] != s['trees'] or m['flags'] != s['flags']:
                            out.append(Disc('unicast.content', '%s: sent type %d flags %d %r %r; received type %d flags %d %r %r' % (
                                where, s['type'], s['flags'], wf, s['trees'], m['type'], m['flags'], gf, m['body'])))
                if out:
                    break
                # broadcasts
                bc = [m for m in inbox if m['fields'].get(6) is None and m['type'] == 4 and m['fields'].get(7) != BUS]
                for s in sent:
                    if s['dest'] is not None:
                        continue
                    ab = c12._abstract_for_oracle(s['abstract'])
                    fits = [r for r in rules[ci] if R.rule_matches(c12._rule_for_oracle(r), ab)]
                    # a rule's sender constraint is met by the connection that is (or owns, at this moment) that name
                    strict = [r for r in fits if r.get('sender') is None or r['sender'] == clients[s['from']].name
                              or owner.get(r['sender']) == s['from']]
                    n_got = sum(1 for m in bc if (m['fields'].get(7), m['serial']) == keyf(s))
                    # (sender= is not among the constraints C12 / C14 enumerate: that a rule naming ANOTHER sender keeps the
                    # signal away is not asserted; that a rule naming THIS sender lets it through is)
                    should = bool(strict)
                    if bool(n_got) != should and not (n_got and fits and not strict):
                        nm = [c12._near_miss_key(r, ab) for r in rules[ci]]
                        out.append(Disc('broadcast.%s' % ('missed' if should else 'spurious'),
                                        '%s: %s holds rules %r; signal %r delivered %d times (near-miss keys %r)' % (
                                            where, clients[ci].name, rules[ci], ab, n_got, nm)))
                if out:
                    break
            if out:
                break
            # messages addressed to the bus: one reply for each method call, to the caller
            for s in sent:
                if s['dest'] != BUS or s['from'] not in live:
                    continue
                replies = [m for m in clients[s['from']].inbox if m['type'] in (2, 3) and m['fields'].get(5) == s['serial']
                           and m['fields'].get(7) in (BUS, None)]
                if s['type'] == 1 and not (s['flags'] & 1) and len(replies) != 1:
                    out.append(Disc('bus-call.reply-count', '%s: call %r to the bus got %d replies' % (where, s['fields'], len(replies))))
                elif s.get('busq') and s['busq'][0] in ('GetNameOwner', 'NameHasOwner') and s['busq'][1] in ('wk', 'unique', 'dead') \
                        and len(replies) == 1:
                    # the answer agrees with the model of names (the bus answers in arrival order, and a burst holds no
                    # name changes, so the model at the end of the step is the model at the time of the question)
                    t = s['busq_target']
                    holder = clients[owner[t]].name if t in owner else (t if any(clients[x].name == t for x in live) else None)
                    r = replies[0]
                    if s['busq'][0] == 'NameHasOwner':
                        # (the built-in bus does not implement this method: an error reply is an answer too)
                        if r['type'] == 2 and r['body'] != [holder is not None]:
                            out.append(Disc('bus-call.NameHasOwner', '%s: %r -> %r, model holder %r' % (where, t, r['body'], holder)))
                    elif holder is None:
                        if r['type'] != 3:
                            out.append(Disc('bus-call.GetNameOwner-of-nobody', '%s: %r -> %r' % (where, t, r['body'])))
                    elif r['type'] != 2 or r['body'] != [holder]:
                        out.append(Disc('bus-call.GetNameOwner', '%s: %r -> %r, model %r' % (where, t, r['body'], holder)))
                for ci in live:
                    leaked = [m for m in clients[ci].inbox if m['fields'].get(6) == BUS]
                    if leaked:
                        out.append(Disc('bus-call.forwarded-to-client', '%s: %s received %r' % (
                            where, clients[ci].name, [(m['type'], m['fields']) for m in leaked])))
            if out:
                break
    except N.RigFailure as e:
        out.append(Disc('rig.attach-failed', str(e)))
    except Exception as e:
        out.append(Disc(exc_key(e, 'history.exception'), exc_detail(e)))
    return out


def classify(case):
    labels = []
    nt = False
    nlive = case['nclients']
    owner_changed = False
    owned = set()
    has_rules = False
    for op in case['ops']:
        if op[0] == 'connect':
            nlive = min(4, nlive + 1)
        elif op[0] == 'disconnect':
            nlive = max(0, nlive - 1)
        elif op[0] in ('own', 'ownr'):
            owned.add(op[2] % 2)
        elif op[0] == 'takeover':
            labels.append('takeover_attempt')
            if op[2] % 2 in owned:
                owner_changed = True
        elif op[0] == 'wait':
            labels.append('queued_waiter')
        elif op[0] == 'disown':
            if op[2] % 2 in owned:
                owner_changed = True
                owned.discard(op[2] % 2)
        elif op[0] == 'addmatch':
            has_rules = True
        elif op[0] == 'burst':
            labels.append('burst%d' % len(op[1]))
            for b in op[1]:
                if b['sender'].startswith('forged') and nlive >= 3:
                    nt = True
                    labels.append('forged_sender_3clients')
                if b['dest'] == 'wk' and owner_changed:
                    nt = True
                    labels.append('owner_changed_earlier')
                if b['dest'] == 'none' and has_rules:
                    nt = True
                    labels.append('broadcast_with_rules')
                labels.append('dest_' + b['dest'])
                if b.get('busq'):
                    labels.append('bus_question')
            if len(op[1]) >= 2 and len(op[2] or []) > 1:
                labels.append('interleaved')
    return nt, sorted(set(labels))


@st.composite
def burst_msg(draw, rules=None):
    near = bool(rules) and draw(st.integers(0, 2)) == 0
    if near:
        # built to satisfy one of the history's match rules except (usually) in one constrained place
        m = draw(c12.message_near(rules[draw(st.integers(0, len(rules) - 1))], (1, 1, 2, 3, 4, 4)))
    else:
        m = draw(c12.message(types=(1, 1, 2, 3, 4, 4)))
    if not near and draw(st.integers(0, 2)) == 0:
        # a body from the full value space (variants, 64-bit integers, empty containers, byte arrays ...)
        m['sig'], m['trees'] = draw(S.typed_values(max_types=3, depth=2))
    busq = None
    if draw(st.integers(0, 7)) == 0:
        busq = [draw(st.sampled_from(['GetNameOwner', 'GetNameOwner', 'NameHasOwner', 'ListQueuedOwners', 'ListNames', 'GetId',
                                      'Hello', 'RequestName', 'ReleaseName', 'RemoveMatch', 'GetConnectionUnixUser'])),
                draw(st.sampled_from(['wk', 'wk', 'unique', 'dead', 'bad'])), draw(st.integers(0, 3))]
        if busq[0] in ('RequestName', 'ReleaseName') and busq[1] in ('wk', 'unique'):
            busq[1] = 'bad'        # name changes belong to the own / disown operations (the model follows those)
    return {'from': draw(st.integers(0, 3)), 'to': draw(st.integers(0, 5)), 'busq': busq,
            'dest': draw(st.sampled_from(['unique', 'unique', 'unique', 'wk', 'wk', 'bus', 'dead', 'none', 'none'])),
            'sender': draw(st.sampled_from(['absent', 'true', 'forged', 'forged', 'forged-wk', 'forged-wk', 'forged-bus'])), 'msg': m,
            'little': draw(st.booleans()), 'no_reply': draw(st.integers(0, 3)) == 0, 'no_auto': draw(st.integers(0, 3)) == 0}


@st.composite
def random_history(draw, tier):
    rules = [draw(c12.rule()) for _ in range(draw(st.integers(1, 4)))]
    for r in rules:
        r.pop('raises', None)
    ops = []
    for _ in range(draw(st.integers(2, 16))):
        k = draw(st.sampled_from(['burst'] * 6 + ['own', 'ownr', 'ownr', 'wait', 'takeover', 'takeover', 'disown', 'addmatch',
                                                  'addmatch', 'removematch', 'connect', 'disconnect']))
        if k == 'burst':
            msgs = [draw(burst_msg(rules)) for _ in range(draw(st.integers(1, 4)))]
            sched = draw(st.lists(st.tuples(st.integers(0, 3), st.sampled_from([0, 0, 1, 7, 16, 40, 100000])).map(list),
                                  min_size=1, max_size=6))
            ops.append(['burst', msgs, sched])
        elif k in ('own', 'ownr', 'disown', 'wait', 'takeover'):
            ops.append([k, draw(st.integers(0, 3)), draw(st.integers(0, 1))])
        elif k in ('addmatch', 'removematch'):
            ops.append([k, draw(st.integers(0, 3)), draw(st.integers(0, 5))])
        elif k == 'disconnect':
            ops.append(['disconnect', draw(st.integers(0, 3))])
        else:
            ops.append(['connect'])
    return {'nclients': draw(st.integers(2, 4)), 'rules': rules, 'ops': ops}


def enum_interleave(tier):
    """2-3 clients, 2-3 in-flight unicast messages, every message-granular read order."""
    base = {'type': 1, 'path': '/o', 'interface': 'org.verif.A', 'member': 'M', 'sig': 's', 'trees': ['x'], 'little': True}
    rule_all = {'type': 'method_call'}
    for nclients in (2, 3):
        for nmsg in (2, 3):
            froms = list(itertools.product(range(nclients), repeat=nmsg))
            for fr in froms:
                tos = [(f + 1) % nclients for f in fr]
                msgs = [{'from': f, 'to': t, 'dest': 'unique', 'sender': 'forged' if i % 2 else 'absent',
                         'msg': dict(base, trees=['m%d' % i]), 'little': bool(i % 2), 'no_reply': False, 'no_auto': False}
                        for i, (f, t) in enumerate(zip(fr, tos))]
                # message-granular schedules: each step picks which non-empty queue is read next (whole message)
                for sched in itertools.product(range(nclients), repeat=nmsg):
                    yield {'nclients': nclients, 'rules': [rule_all],
                           'ops': [['addmatch', nclients - 1, 0], ['burst', msgs, [[w, 0] for w in sched]]]}


def enum_fixed(tier):
    """Deterministic families: rule removed between two identical broadcasts; a waiting client behind an owner."""
    sig = {'type': 4, 'path': '/a/b', 'interface': 'org.verif.A', 'member': 'Sig', 'sig': 's', 'trees': ['x'], 'little': True}
    bc = {'from': 0, 'to': 0, 'dest': 'none', 'sender': 'absent', 'msg': sig, 'little': True, 'no_reply': False, 'no_auto': False}
    for rule in ({'type': 'signal'}, {'path': '/a/b'}, {'interface': 'org.verif.A', 'member': 'Sig'}, {'args': [[0, 'x']]},
                 {'path_namespace': '/a'}, {}):
        yield {'nclients': 3, 'rules': [rule, {'member': 'Nope'}],
               'ops': [['addmatch', 1, 0], ['addmatch', 2, 1], ['burst', [bc], [[0, 0]]], ['removematch', 1, 0],
                       ['burst', [bc], [[0, 0]]], ['addmatch', 1, 0], ['addmatch', 1, 0], ['removematch', 1, 0],
                       ['burst', [bc], [[0, 0]]], ['disconnect', 1], ['burst', [bc], [[0, 0]]]]}
    # same number of rules before and after: one connection drops its rule, another adds one, between two broadcasts
    yield {'nclients': 3, 'rules': [{'path': '/a/b'}, {'member': 'Sig'}, {'member': 'Nope'}],
           'ops': [['addmatch', 1, 0], ['addmatch', 0, 2], ['burst', [bc], [[0, 0]]], ['removematch', 1, 0], ['addmatch', 2, 1],
                   ['burst', [bc], [[0, 0]]], ['removematch', 2, 0], ['addmatch', 1, 1], ['burst', [bc], [[0, 0]]]]}
    call = {'type': 1, 'path': '/o', 'interface': 'org.verif.A', 'member': 'M', 'sig': '', 'trees': [], 'little': True}
    uc = {'from': 2, 'to': 0, 'dest': 'wk', 'sender': 'forged', 'msg': call, 'little': True, 'no_reply': False, 'no_auto': False}
    for closing in (['disown', 0, 0], ['disconnect', 0]):
        yield {'nclients': 3, 'rules': [{}],
               'ops': [['own', 0, 0], ['wait', 1, 0], ['burst', [uc], [[0, 0]]], closing, ['burst', [uc], [[0, 0]]]]}
    # a replaceable owner is replaced; the replacer then releases or leaves; where does a call to the name go at each stage?
    for closing in (['disown', 0, 0], ['disconnect', 1]):
        for leaving in ([], [['disconnect', 0]]):
            yield {'nclients': 3, 'rules': [{}],
                   'ops': [['ownr', 0, 0], ['burst', [uc], [[0, 0]]], ['takeover', 1, 0], ['burst', [uc], [[0, 0]]]] + leaving +
                          [closing, ['burst', [uc], [[0, 0]]], ['own', 1, 0], ['burst', [uc], [[0, 0]]]]}
    # a waiter replaces the owner: the first waiter, the second one (somebody queued ahead of it), with the displaced owner
    # leaving or staying; where do calls to the name go afterwards?
    for taker in (1, 2):
        for after in ([], [['disconnect', 0]], [['disown', taker, 0]]):
            yield {'nclients': 4, 'rules': [{}],
                   'ops': [['ownr', 0, 0], ['wait', 1, 0], ['wait', 2, 0], ['burst', [dict(uc, **{'from': 3})], [[0, 0]]],
                           ['takeover', taker, 0], ['burst', [dict(uc, **{'from': 3})], [[0, 0]]]] + after +
                          [['burst', [dict(uc, **{'from': 3})], [[0, 0]]]]}
    # rules naming a sender by well-known name: subscribed before anybody owns the name, or while somebody else does
    for rule in ({'type': 'signal'}, {'member': 'Sig'}, {}):
        bc0 = dict(bc, **{'from': 0})
        bc2 = dict(bc, **{'from': 2})
        yield {'nclients': 3, 'rules': [rule], 'ops': [['addmatch', 1, 0, 'wk0'], ['own', 0, 0], ['burst', [bc0], [[0, 0]]]]}
        yield {'nclients': 3, 'rules': [rule],
               'ops': [['ownr', 0, 0], ['addmatch', 1, 0, 'wk0'], ['burst', [bc0], [[0, 0]]], ['takeover', 2, 0],
                       ['burst', [bc2], [[0, 0]]], ['burst', [bc0], [[0, 0]]]]}
        yield {'nclients': 3, 'rules': [rule], 'ops': [['addmatch', 1, 0, 2], ['burst', [bc2], [[0, 0]]], ['burst', [bc0], [[0, 0]]]]}
    # the owner of a name and a client waiting for it both write that name into the sender field
    for frm in (0, 1):
        for t in (1, 2, 3, 4):
            fm = dict(call, type=t)
            forged = {'from': frm, 'to': 2, 'dest': 'unique', 'sender': 'forged-wk', 'msg': fm, 'little': True,
                      'no_reply': False, 'no_auto': False}
            yield {'nclients': 3, 'rules': [{}], 'ops': [['own', 0, 0], ['wait', 1, 0], ['burst', [forged], [[0, 0]]]]}


SUBCHECKS = [
    Subcheck('random', run_history, classify, strategy=lambda tier: random_history(tier),
             n={'quick': 250, 'thorough': 3000}),
    Subcheck('interleave', run_history, classify, enumerate=enum_interleave, shards={'quick': 4, 'thorough': 8},
             exhaustive_note='2-3 clients x 2-3 in-flight unicast calls x every sender assignment x every message-granular '
                             'read order, with one client holding a type=method_call rule'),
    Subcheck('fixed', run_history, classify, enumerate=enum_fixed, shards={'quick': 1, 'thorough': 1},
             exhaustive_note='rule added / removed / re-added / holder disconnected between identical broadcasts; unicast to '
                             'a well-known name with a second client waiting behind the owner, before and after hand-over'),
]
