"""C19 -- signature splitting and variant type inference (DESIGN.md section 3, C19)."""
import struct

from hypothesis import strategies as st

from .. import refcodec as R
from .. import strategies as S
from ..core import Disc, Subcheck, exc_detail, exc_key

PROPERTY_ID = 'C19'
LEVEL = 'exploration'
RULE = ('split: every valid signature of <=4 (quick) / <=5 (thorough) characters over the full 19-symbol alphabet, '
        'enumerated and filtered by the reference grammar (exhaustive), every valid signature of <=9/<=11 characters '
        'over a reduced alphabet (y s v a ( ) { }) and random valid signatures up to 255 bytes / nesting 32; oracle: '
        'list(genCompleteTypes(s)) == reference decomposition, DBusInterface argument counts == piece count. '
        'infer: Python values built bottom-up from bool/int32/float/str/bytearray/wrapper classes in lists, tuples '
        'and dicts whose elements are (1) homogeneous, (2) of Python classes unrelated to the first element or '
        '(3) subclass instances fitting the first element type; oracle: sigFromPy is one complete type, wrappers '
        'select their code, marshal("v") succeeds and unmarshal returns an equal value (Python ==); infer_long: wide structs '
        'whose inferred signature has exactly 250..255 characters. Non-trivial: '
        'signature contains a container / value contains a container with >=2 elements; distinct = distinct case JSON. Dict keys: str, '
        'int, float, bool and every wrapper class (integers, ObjectPath, Signature). infer_long also pairs numbers of different '
        'Python types in both orders (float / int / bool / 64-bit and narrow wrappers): each travels as what it is.')
ASSUMPTIONS = [
    'containers whose elements share a Python class but not a D-Bus type are outside the claim and not generated',
    'plain ints stay within int32; NaN is not generated (Python equality is the stated oracle); the keys of one dict are all of '
    'one kind (str, int, float, bool or one wrapper class)',
]

FULL = 'ybnqiuxtdsoghva(){}'
REDUCED = 'ysva(){}'

# --------------------------------------------------------------------------
# (a) splitter


def _all_strings(alphabet, n):
    if n == 0:
        yield ''
        return
    for s in _all_strings(alphabet, n - 1):
        for ch in alphabet:
            yield s + ch


_memo = {}


def _types_of_len(n, leafs):
    """All single complete types of exactly n characters over the given leaf codes
    (arrays, structs, dict entries with key 'y' or 's'), ignoring nesting limits < 32."""
    key = (n, leafs)
    if key in _memo:
        return _memo[key]
    out = []
    if n == 1:
        out = list(leafs)
    elif n > 1:
        for t in _types_of_len(n - 1, leafs):
            out.append('a' + t)
        # struct: '(' + sequence of types totalling n-2 + ')'
        for seq in _seqs_of_len(n - 2, leafs):
            if seq:
                out.append('(' + seq + ')')
        # dict: a{KV}
        if n >= 5:
            for k in [c for c in leafs if c != 'v']:
                for v in _types_of_len(n - 4, leafs):
                    out.append('a{' + k + v + '}')
    _memo[key] = out
    return out


_smemo = {}


def _seqs_of_len(n, leafs):
    key = (n, leafs)
    if key in _smemo:
        return _smemo[key]
    if n == 0:
        out = ['']
    else:
        out = []
        for first in range(1, n + 1):
            for t in _types_of_len(first, leafs):
                for rest in _seqs_of_len(n - first, leafs):
                    out.append(t + rest)
    _smemo[key] = out
    return out


def enum_split(tier):
    nfull = 4 if tier == 'quick' else 5
    for n in range(0, nfull + 1):
        for s in _all_strings(FULL, n):
            if R.is_valid_signature(s):
                yield {'sig': s, 'space': 'full'}
    nred = 9 if tier == 'quick' else 11
    seen_dup = 0
    for n in range(nfull + 1, nred + 1):
        seqs = _seqs_of_len(n, 'ysv')
        # the dict-entry construction is also reachable as 'a'+... only via a{..}; no duplicates by construction
        for s in seqs:
            yield {'sig': s, 'space': 'reduced'}
    del seen_dup


@st.composite
def random_sig_case(draw, tier):
    if draw(st.integers(0, 5)) == 0:
        types = [draw(S.limit_type())]
    else:
        n = draw(st.integers(1, 12))
        d = draw(st.sampled_from([2, 3, 4, 6]))
        types = [draw(S.complete_type(d, allow_h=True)) for _ in range(n)]
    while len(''.join(types)) > 255:
        types.pop()
    return {'sig': ''.join(types), 'space': 'random'}


def run_split(case):
    from txdbus import interface as I
    from txdbus import marshal as M
    s = case['sig']
    exp = R.split_signature(s)
    out = []
    try:
        got = list(M.genCompleteTypes(s))
    except Exception as e:
        return [Disc(exc_key(e, 'split.gen'), exc_detail(e) + '\nsig=%r' % s)]
    if got != exp:
        out.append(Disc('split.decomposition', 'sig=%r expected %r got %r' % (s, exp, got)))
    try:
        m = I.Method('M', s, s)
        sg = I.Signal('S', s)
        I.DBusInterface('org.verif.C19', m, sg, noRegister=True)
        if m.nargs != len(exp) or m.nret != len(exp) or sg.nargs != len(exp):
            out.append(Disc('split.nargs', 'sig=%r expected %d got nargs=%r nret=%r signal=%r' % (
                s, len(exp), m.nargs, m.nret, sg.nargs)))
    except Exception as e:
        out.append(Disc(exc_key(e, 'split.iface'), exc_detail(e)))
    return out


def classify_split(case):
    s = case['sig']
    cont = any(c in s for c in 'a({')
    labels = [case['space']]
    if cont:
        labels.append('container')
    if len(s) > 100:
        labels.append('len>100')
    if 'a' * 32 in s or '(' * 32 in s:
        labels.append('at_nesting_limit')
    return cont, labels


# --------------------------------------------------------------------------
# (b) inference.  A JSON "pv" node describes a Python value:
#   ["bool",b] ["int",n] ["float",hex] ["str",s] ["ba",hex] ["w",code,value]
#   ["list",[nodes]] ["tuple",[nodes]] ["dict",[[knode,vnode],...]]

WRAP_INT = 'ynqiuxt'
_i32 = st.one_of(st.sampled_from([0, 1, -1, 2**31 - 1, -2**31, 255, 256]), st.integers(-2**31, 2**31 - 1))
_flt = st.floats(allow_nan=False).map(lambda f: struct.pack('>d', f).hex())


# every basic type may key a dict: plain str / int / float / bool and each wrapper class (DBus: y b n q i u x t d s o g)
KEY_SHAPES = [['str'], ['int'], ['str'], ['int'], ['float'], ['bool']] + [['w', c] for c in WRAP_INT + 'go']


def _key_id(node):
    return (node[0], node[-1])


@st.composite
def _keys(draw, ksh, n):
    if ksh == ['bool']:
        n = min(n, 2)
    return draw(st.lists(inst(ksh), min_size=n, max_size=n, unique_by=_key_id))


@st.composite
def shape(draw, depth):
    """A template all of whose instances share one D-Bus type."""
    kinds = ['bool', 'int', 'float', 'str', 'ba', 'w', 'w']
    if depth > 0:
        kinds += ['list', 'tuple', 'dict', 'list']
    k = draw(st.sampled_from(kinds))
    if k == 'w':
        return ['w', draw(st.sampled_from(list(WRAP_INT + 'bgo')))]
    if k == 'list':
        return ['list', draw(shape(depth - 1))]
    if k == 'tuple':
        return ['tuple', [draw(shape(depth - 1)) for _ in range(draw(st.integers(1, 3)))]]
    if k == 'dict':
        return ['dict', draw(st.sampled_from(KEY_SHAPES)), draw(shape(depth - 1))]
    return [k]


@st.composite
def inst(draw, sh):
    k = sh[0]
    if k == 'bool':
        return ['bool', draw(st.booleans())]
    if k == 'int':
        return ['int', draw(_i32)]
    if k == 'float':
        return ['float', draw(_flt)]
    if k == 'str':
        return ['str', draw(S._text)]
    if k == 'ba':
        return ['ba', draw(st.binary(max_size=5)).hex()]
    if k == 'w':
        c = sh[1]
        if c in WRAP_INT:
            return ['w', c, draw(S._int_values(c))]
        if c == 'b':
            return ['w', c, draw(st.integers(0, 1))]
        if c == 'g':
            return ['w', c, draw(S.signature(max_types=2, depth=1))]
        return ['w', c, draw(S.object_path)]
    if k == 'list':   # homogeneous, non-empty so every instance infers the same type
        n = draw(st.integers(1, 3))
        return ['list', [draw(inst(sh[1])) for _ in range(n)]]
    if k == 'tuple':
        return ['tuple', [draw(inst(s)) for s in sh[1]]]
    if k == 'dict':
        n = draw(st.integers(1, 3))
        ks = draw(_keys(sh[1], n))
        return ['dict', [[kk, draw(inst(sh[2]))] for kk in ks]]
    raise ValueError(sh)


# families for the heterogeneous mode: python classes and which are instances of which
def _pyclass(node):
    return {'bool': bool, 'int': int, 'float': float, 'str': str, 'ba': bytearray, 'list': list,
            'tuple': tuple, 'dict': dict}.get(node[0])


@st.composite
def pv(draw, depth=2):
    mode = draw(st.sampled_from(['homog', 'homog', 'hetero', 'subclass', 'scalar', 'empty']))
    if depth <= 0:
        mode = 'scalar'
    if mode == 'scalar':
        return draw(inst(draw(shape(0))))
    if mode == 'empty':
        return draw(st.sampled_from([['list', []], ['dict', []]]))
    cont = draw(st.sampled_from(['list', 'dict', 'tuple']))
    if cont == 'tuple':
        n = draw(st.integers(1, 4))
        return ['tuple', [draw(pv(depth - 1)) for _ in range(n)]]
    n = draw(st.integers(2, 4))
    if mode == 'homog':
        sh = draw(shape(depth - 1))
        els = [draw(inst(sh)) for _ in range(n)]
    elif mode == 'hetero':
        # later elements: at least the second is of a class unrelated to the first's class
        first = draw(pv(depth - 1))
        els = [first]
        tries = 0
        while len(els) < n and tries < 20:
            tries += 1
            cand = draw(pv(depth - 1))
            if len(els) == 1 and _related(first, cand):
                continue
            els.append(cand)
        if len(els) < 2:
            els.append(['str', 'x'] if first[0] != 'str' else ['float', struct.pack('>d', 1.5).hex()])
    else:   # subclass instances that fit the first element's inferred type
        base = draw(st.sampled_from(['int', 'str']))
        if base == 'int':
            first = ['int', draw(_i32)]
            rest = st.one_of(st.booleans().map(lambda b: ['bool', b]),
                             _i32.map(lambda v: ['int', v]),
                             st.integers(-2**15, 2**15 - 1).map(lambda v: ['w', 'n', v]),
                             st.integers(0, 255).map(lambda v: ['w', 'y', v]))
        else:
            first = ['str', draw(S._text)]
            rest = st.one_of(S._text.map(lambda v: ['str', v]),
                             S.object_path.map(lambda v: ['w', 'o', v]),
                             S.signature(max_types=2, depth=1).map(lambda v: ['w', 'g', v]))
        els = [first] + [draw(rest) for _ in range(n - 1)]
    if cont == 'list':
        return ['list', els]
    ks = draw(_keys(draw(st.sampled_from(KEY_SHAPES)), len(els)))
    return ['dict', [[k, v] for k, v in zip(ks, els)]]


def _related(first, cand):
    """Would `cand` be an instance of type(first)?  (harness-side, on node kinds)"""
    fa, ca = first[0], cand[0]
    if fa == 'w' or ca == 'w':
        if fa == 'w' and ca == 'w':
            return first[1] == cand[1]
        if fa == 'int':
            return ca == 'w' and cand[1] in WRAP_INT + 'b'
        if fa == 'str':
            return ca == 'w' and cand[1] in 'go'
        return False   # first is a wrapper, cand a plain value: never an instance of the wrapper class
    if fa == 'int':
        return ca in ('int', 'bool')
    return fa == ca


def build(node, M):
    k = node[0]
    if k == 'bool':
        return bool(node[1])
    if k == 'int':
        return int(node[1])
    if k == 'float':
        return S.hex_to_float(node[1])
    if k == 'str':
        return node[1]
    if k == 'ba':
        return bytearray(bytes.fromhex(node[1]))
    if k == 'w':
        cls = {'y': M.Byte, 'b': M.Boolean, 'n': M.Int16, 'q': M.UInt16, 'i': M.Int32, 'u': M.UInt32,
               'x': M.Int64, 't': M.UInt64, 'g': M.Signature, 'o': M.ObjectPath}[node[1]]
        return cls(node[2])
    if k == 'list':
        return [build(x, M) for x in node[1]]
    if k == 'tuple':
        return tuple(build(x, M) for x in node[1])
    if k == 'dict':
        return {build(a, M): build(b, M) for a, b in node[1]}
    if k == 'shared':
        # ONE object referenced from several places of the value (a DAG, not a tree): equal parts need not be copies
        x = build(node[2], M)
        return {'pair': (x, x), 'triple': [('a', x, x)], 'mixed': ([x], 1.5, x), 'dictvals': ({'k': x}, x)}[node[1]]
    raise ValueError(node)


def normalise(v):
    """C01 normalisations: tuples -> lists, bytearray -> list of ints, wrappers -> plain."""
    if isinstance(v, bool):
        return v
    if isinstance(v, int):
        return int(v)
    if isinstance(v, float):
        return v
    if isinstance(v, str):
        return str(v)
    if isinstance(v, bytearray):
        return list(v)
    if isinstance(v, (list, tuple)):
        return [normalise(x) for x in v]
    if isinstance(v, dict):
        return {normalise(k): normalise(x) for k, x in v.items()}
    return v


def run_infer(case):
    from txdbus import marshal as M
    node = case['pv']
    v = build(node, M)
    out = []
    try:
        s = M.sigFromPy(v)
    except Exception as e:
        return [Disc(exc_key(e, 'infer.sigFromPy'), exc_detail(e))]
    if not R.is_single_complete_type(s):
        out.append(Disc('infer.not-single-complete-type', 'value %r -> %r' % (v, s)))
        return out
    if node[0] == 'w' and s != node[1]:
        out.append(Disc('infer.wrapper-code', 'wrapper %s -> %r' % (node[1], s)))
    for le in (True, False):
        try:
            n, chunks = M.marshal('v', [v], case['off'], le)
            data = b''.join(chunks)
        except Exception as e:
            out.append(Disc(exc_key(e, 'infer.marshal'), exc_detail(e) + '\nvalue=%r sig=%r' % (v, s)))
            break
        try:
            n2, back = M.unmarshal('v', b'\x55' * case['off'] + data, case['off'], le)
        except Exception as e:
            out.append(Disc(exc_key(e, 'infer.unmarshal'), exc_detail(e) + '\nvalue=%r sig=%r' % (v, s)))
            break
        exp = normalise(v)
        if not (back[0] == exp):
            out.append(Disc('infer.roundtrip-not-equal', 'value %r (sig %r) came back %r' % (v, s, back[0])))
            break
        if n2 != n:
            out.append(Disc('infer.consumed', '%d vs %d' % (n, n2)))
            break
    return out


def enum_infer_long(tier):
    """Values whose inferred signature is 250..255 characters long (255 is the most a signature may have): wide
    structs of ints, of int lists, with a wrapper in the middle, alone or as one element of a heterogeneous list."""
    for total in range(250, 256):
        wide = ['tuple', [['int', i % 7] for i in range(total - 2)]]                    # (iii...i)
        yield {'pv': wide, 'off': 0}
        yield {'pv': ['list', [wide, ['str', 'x']]], 'off': 4}                          # nested variant inside av
        if (total - 3) % 2 == 0:
            lists = ['tuple', [['str', 's']] + [['list', [['int', 1], ['int', 2]]] for _ in range((total - 3) // 2)]]
            yield {'pv': lists, 'off': 0}                                               # (saiai...ai)
        mixed = ['tuple', [['w', 'y', 5]] + [['int', i % 3] for i in range(total - 4)] + [['w', 't', 2**40]]]
        yield {'pv': mixed, 'off': 1}
    # numbers of different Python types in one list, in both orders: each travels as what it is (no promotion to the first
    # element's type - a double cannot hold every 64-bit integer, a byte cannot hold 1000)
    flt = lambda f: ['float', struct.pack('>d', f).hex()]    # noqa: E731
    nums = [flt(0.5), flt(-0.0), ['int', 7], ['int', 2**31 - 1], ['bool', True], ['w', 'x', 2**53 + 1], ['w', 'x', -2**63],
            ['w', 't', 2**64 - 1], ['w', 'y', 255], ['w', 'n', -2**15], ['w', 'u', 2**32 - 1]]
    for a in nums:
        for b in nums:
            # (b an instance of a's Python class - a wrapper or a bool after a plain int - is the case the claim leaves out:
            # see ASSUMPTIONS)
            if (a[0] != b[0] or (a[0] == 'w' and a[1] != b[1])) and not _related(a, b):
                yield {'pv': ['list', [a, b]], 'off': 0}
                yield {'pv': ['list', [a, b, a]], 'off': 5}
                yield {'pv': ['dict', [[['str', 'p'], a], [['str', 'q'], b]]], 'off': 2}
    # the same container object used twice inside one value
    for shape in ('pair', 'triple', 'mixed', 'dictvals'):
        for inner in (['list', [['int', 0], ['int', 0]]], ['dict', [[['str', 'a'], ['int', 1]]]], ['list', []],
                      ['tuple', [['str', 'x'], ['list', [['int', 5]]]]]):
            yield {'pv': ['shared', shape, inner], 'off': 2}
    # containers that are big in BYTES (an array may hold up to 2^26 bytes of element data): blobs and long lists around
    # 64 KiB, alone, as a dict value and inside a heterogeneous list
    for nbytes in (65535, 65536, 65537, 70001):
        blob = ['ba', '5a' * nbytes]
        yield {'pv': blob, 'off': 0}
        yield {'pv': ['dict', [[['str', 'blob'], blob]]], 'off': 3}
    yield {'pv': ['list', [['int', i % 100] for i in range(20000)]], 'off': 0}
    yield {'pv': ['list', [['list', [['float', '3ff0000000000000'] for _ in range(9000)]], ['str', 'x']]], 'off': 5}
    yield {'pv': ['tuple', [['list', [['str', 'element-%d' % i] for i in range(4000)]], ['int', 1]]], 'off': 0}


def _count_big(node):
    big = 0
    if node[0] in ('list', 'tuple', 'dict'):
        if len(node[1]) >= 2:
            big = 1
        for x in node[1]:
            if node[0] == 'dict':
                big += _count_big(x[1])
            else:
                big += _count_big(x)
    return big


def classify_infer(case):
    node = case['pv']
    labels = [node[0]]
    nt = _count_big(node) > 0
    labels.append(case.get('mode', ''))
    return nt, [x for x in labels if x]


@st.composite
def infer_case(draw, tier):
    return {'pv': draw(pv(2 if tier == 'quick' else 3)), 'off': draw(st.integers(0, 7))}


SUBCHECKS = [
    Subcheck('split_enum', run_split, classify_split, enumerate=enum_split,
             shards={'quick': 4, 'thorough': 16},
             exhaustive_note='all valid signatures <=4 (quick) / <=5 (thorough) chars over the full alphabet; all '
                             'valid signatures <=9 / <=11 chars over the reduced alphabet {y,s,v,a,(,),{,}}'),
    Subcheck('split_random', run_split, classify_split, strategy=lambda tier: random_sig_case(tier),
             n={'quick': 300, 'thorough': 3000}),
    Subcheck('infer', run_infer, classify_infer, strategy=lambda tier: infer_case(tier),
             n={'quick': 700, 'thorough': 6000}),
    Subcheck('infer_long', run_infer, lambda c: (True, ['inferred_signature_250_255']), enumerate=enum_infer_long,
             shards={'quick': 2, 'thorough': 2},
             exhaustive_note='wide structs whose inferred signature has exactly 250..255 characters (the limit), in four shapes; '
                             'blobs and lists of 64-70 KiB of element data, alone and nested'),
]
