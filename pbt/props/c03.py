"""C03 -- every constructible message is well-formed and parses back (DESIGN.md section 3, C03)."""
from hypothesis import strategies as st

from .. import refcodec as R
from .. import strategies as S
from ..core import Disc, Subcheck, exc_detail, exc_key
from . import c18

PROPERTY_ID = 'C03'
LEVEL = 'exploration'
RULE = ('build: 4 message classes x drawn subset of optional fields x no-reply/no-autostart flags x body from the C01 '
        'value space x drawn start of the process-wide serial counter (incl. 2^32-3..2^32-1 and values whose bytes '
        'contain CR LF), 3 messages per case; oracle: strict reference decoder accepts rawMessage and recovers type, '
        'flags, version, body length, fresh distinct non-zero serial, exactly the given fields, body; parseMessage of '
        'those bytes recovers the same. parse: the same abstract message reference-encoded in either byte order with '
        'permuted header fields and 0-2 unknown field codes must parse to the same message. reject: one name replaced '
        'by an invalid one / reserved path / size limit at len-1,len,len+1 (and the real 2^27 boundary) must raise '
        'MarshallingError; build_fds: sequences of method calls carrying 0-3 descriptors (oobFDs) built in one process, '
        'each decoded strictly; reject_affixed: every message class x name-carrying argument x valid name with one foreign '
        'character (newline, CR, NUL, blank, separator, non-ASCII) in front or behind, exhaustive. Non-trivial = (>=1 optional field and a body) or a non-default flag or big-endian / '
        'permuted / unknown-field input; distinct = distinct case JSON. Parse-side inputs also carry what only a foreign encoder '
        'writes: header fields defined for another message type (PATH on a reply ...), which must come back, and extra flag bits. '
        'reject_same: one string for two name-carrying arguments of a constructor (each judged by its own grammar).')
ASSUMPTIONS = ['sender is set through a constructor only where one takes it (ErrorMessage)',
               'unknown header field codes must be ignored, not preserved']


def _reset(MSG, start):
    MSG.DBusMessage._nextSerial = start


@st.composite
def build_case(draw, tier):
    depth = 2 if tier == 'quick' else 3
    msgs = [draw(S.message(body_depth=depth, big=True)) for _ in range(draw(st.integers(1, 3)))]
    start = draw(st.one_of(st.sampled_from([1, 2, 0x0a0d, 0x0d0a - 1, 2**32 - 3, 2**32 - 2, 2**32 - 1, 2**31]),
                           st.integers(1, 2**32 - 1)))
    return {'msgs': msgs, 'start': start}


def run_build(case):
    from txdbus import message as MSG
    out = []
    saved = MSG.DBusMessage._nextSerial
    seen = set()
    try:
        _reset(MSG, case['start'])
        for idx, msg in enumerate(case['msgs']):
            try:
                m = S.build_txdbus_message(MSG, msg)
            except Exception as e:
                out.append(Disc(exc_key(e, 'build.construct'), exc_detail(e) + '\nstart=%d idx=%d' % (case['start'], idx)))
                break
            raw = getattr(m, 'rawMessage', None)
            parts = [getattr(m, a, None) for a in ('rawHeader', 'rawPadding', 'rawBody')]
            if not isinstance(raw, bytes) or not all(isinstance(x, bytes) for x in parts):
                out.append(Disc('build.raw-attributes', 'rawMessage/rawHeader/rawPadding/rawBody are %r' % (
                    [type(x).__name__ for x in [raw] + parts],)))
                continue
            if raw != b''.join(parts):
                out.append(Disc('build.raw-parts', 'rawMessage != header+padding+body'))
            if len(m.rawPadding) != (-len(m.rawHeader)) % 8 or m.rawPadding.strip(b'\0'):
                out.append(Disc('build.header-padding', repr(m.rawPadding)))
            try:
                d = R.decode_message(raw)
            except R.RefError as e:
                out.append(Disc('build.not-well-formed', '%s\nraw=%s' % (e, raw.hex()[:400])))
                continue
            want = S.constructible_fields(msg)
            if not d['little']:
                out.append(Disc('build.endian', 'not little endian'))
            if d['type'] != msg['type']:
                out.append(Disc('build.type', '%r' % d['type']))
            flags = (1 if msg['no_reply'] else 0) | (2 if msg['no_auto'] else 0)
            if d['flags'] != flags:
                out.append(Disc('build.flags', 'expected %d got %d' % (flags, d['flags'])))
            if d['body_len'] != len(m.rawBody):
                out.append(Disc('build.body-length', '%d vs %d' % (d['body_len'], len(m.rawBody))))
            if d['serial'] != getattr(m, 'serial', None) or d['serial'] == 0 or d['serial'] in seen:
                out.append(Disc('build.serial', 'wire %r attr %r earlier %r' % (d['serial'], m.serial, sorted(seen))))
            seen.add(d['serial'])
            got = {R.FIELDS[c][0]: v for c, v in d['fields'].items() if c != 8}
            if got != want:
                out.append(Disc('build.fields', 'expected %r got %r' % (want, got)))
            if d['unknown']:
                out.append(Disc('build.unknown-fields', repr(d['unknown'])))
            if d['body_sig'] != msg['sig'] or d['body'] != msg['trees']:
                out.append(Disc('build.body', 'expected %r %r got %r %r' % (msg['sig'], msg['trees'],
                                                                            d['body_sig'], d['body'])))
            try:
                p = MSG.parseMessage(raw, [])
            except Exception as e:
                out.append(Disc(exc_key(e, 'own.parse'), exc_detail(e)))
                continue
            if getattr(p, 'serial', None) != getattr(m, 'serial', None):
                out.append(Disc('own.serial', '%r vs %r' % (getattr(p, 'serial', None), getattr(m, 'serial', None))))
            for k, det in S.compare_parsed(p, msg, want, 'own'):
                out.append(Disc(k, det))
    finally:
        MSG.DBusMessage._nextSerial = saved
    return out


def classify_build(case):
    labels = []
    nt = False
    for msg in case['msgs']:
        labels.append('type%d' % msg['type'])
        opt = [f for f in S.constructible_fields(msg) if f in S.MSG_FIELDS[msg['type']][1]]
        if (opt and msg['sig']) or msg['no_reply'] or msg['no_auto']:
            nt = True
        if msg['no_reply'] or msg['no_auto']:
            labels.append('nondefault_flag')
        if msg['sig']:
            labels.append('body')
    if case['start'] >= 2**32 - 3:
        labels.append('serial_wrap')
    return nt, sorted(set(labels))


# --------------------------------------------------------------------------

@st.composite
def parse_case(draw, tier):
    msg = draw(S.message(body_depth=2 if tier == 'quick' else 3, big=True))
    draw(S.wire_only_extras(msg))
    msg.pop('flag_bits', None)      # drawn separately below
    nextra = draw(st.sampled_from([0, 0, 1, 2]))
    extra = []
    for _ in range(nextra):
        code = draw(st.integers(10, 255))
        t = draw(S.complete_type(1))
        extra.append([code, t, draw(S.tree_for(t))])
    n = S.n_header_fields(msg, nextra)
    order = draw(st.permutations(list(range(n)))) if draw(st.booleans()) else None
    return {'msg': msg, 'little': draw(st.booleans()), 'order': order, 'extra': extra,
            'flag_bits': draw(st.sampled_from([0, 0, 0x4, 0x8, 0xfc]))}


def run_parse(case):
    from txdbus import message as MSG
    msg = case['msg']
    raw = S.ref_message_bytes(msg, case['little'], case['order'], [tuple(e) for e in case['extra']])
    if case.get('flag_bits'):
        # flag bits this implementation does not know (e.g. ALLOW_INTERACTIVE_AUTHORIZATION = 0x4) must be ignored
        raw = raw[:2] + bytes([raw[2] | case['flag_bits']]) + raw[3:]
    R.decode_message(raw)   # the reference accepts its own output (harness sanity)
    try:
        p = MSG.parseMessage(raw, [])
    except Exception as e:
        return [Disc(exc_key(e, 'ref.parse'), exc_detail(e) + '\nraw=%s' % raw.hex()[:600])]
    out = []
    if p.serial != msg['serial']:
        out.append(Disc('ref.serial', 'expected %r got %r' % (msg['serial'], p.serial)))
    for k, det in S.compare_parsed(p, msg, None, 'ref'):
        out.append(Disc(k, det))
    return out


def classify_parse(case):
    msg = case['msg']
    labels = ['type%d' % msg['type']]
    if not case['little']:
        labels.append('big_endian')
    if case['order'] is not None:
        labels.append('permuted')
    if case['extra']:
        labels.append('unknown_fields')
    if msg.get('foreign'):
        labels.append('fields_of_other_types')
    if case.get('flag_bits'):
        labels.append('unknown_flag_bits')
    if msg['no_reply'] or msg['no_auto']:
        labels.append('nondefault_flag')
    return (not case['little']) or case['order'] is not None or bool(case['extra']) or msg['no_reply'] or \
        msg['no_auto'] or bool(msg['sig']), labels


# --------------------------------------------------------------------------

NAME_ARGS = {1: ['path', 'member', 'interface', 'destination'], 2: ['destination'],
             3: ['error_name', 'destination'], 4: ['path', 'member', 'interface', 'destination']}


@st.composite
def reject_case(draw, tier):
    kind = draw(st.sampled_from(['name', 'name', 'name', 'reserved', 'limit']))
    msg = draw(S.message(body_depth=1, with_sender=False))
    if kind == 'name':
        arg = draw(st.sampled_from(NAME_ARGS[msg['type']]))
        rec = c18.REC[c18.ARG_KIND[arg]]
        bad = draw(st.one_of(c18.boundary_name().map(lambda c: c['s']),
                             st.text(alphabet=st.sampled_from(c18.ALPHABET), max_size=6),
                             c18.affixed_name(c18.ARG_KIND[arg]), c18.affixed_name(c18.ARG_KIND[arg])))
        return {'kind': 'name', 'msg': msg, 'arg': arg, 'value': bad, 'valid': rec(bad)}
    if kind == 'reserved':
        msg = draw(S.message(mtypes=(1,), body_depth=1, with_sender=False))
        msg['fields']['path'] = '/org/freedesktop/DBus/Local'
        return {'kind': 'reserved', 'msg': msg}
    return {'kind': 'limit', 'msg': msg, 'delta': draw(st.sampled_from([-9, -1, 0, 1, 8]))}


def enum_build_fds(tier):
    """Several method calls built in one process, some of them carrying UNIX descriptors (the only constructor that takes
    an oobFDs list): each must be well-formed on its own, whatever was built before it."""
    for pattern in ((1, 0, 2, 0, 1), (2, 2, 0), (0, 3, 1, 1, 0, 2)):
        yield {'pattern': list(pattern)}


def run_build_fds(case):
    from txdbus import message as MSG
    out = []
    saved = MSG.DBusMessage._nextSerial
    try:
        for idx, nfd in enumerate(case['pattern']):
            fds = []
            body = [100 + idx * 10 + k for k in range(nfd)] + ['tail']
            try:
                m = MSG.MethodCallMessage('/o', 'Take', interface='a.b', destination='c.d', signature='h' * nfd + 's', body=body,
                                          oobFDs=fds)
            except Exception as e:
                out.append(Disc(exc_key(e, 'buildfd.construct'), exc_detail(e)))
                break
            try:
                d = R.decode_message(m.rawMessage)
            except R.RefError as e:
                out.append(Disc('buildfd.not-well-formed', 'message %d of %r (%d descriptors): %s' % (idx, case['pattern'], nfd, e)))
                break
            want = {1: '/o', 2: 'a.b', 3: 'Take', 6: 'c.d', 8: 'h' * nfd + 's'}
            if nfd:
                want[9] = nfd
            if d['fields'] != want or d['unknown']:
                out.append(Disc('buildfd.fields', 'message %d: expected %r got %r (+%r)' % (idx, want, d['fields'], d['unknown'])))
            if d['body'] != list(range(nfd)) + ['tail'] or fds != body[:nfd]:
                out.append(Disc('buildfd.body', 'message %d: body %r, descriptor list %r' % (idx, d['body'], fds)))
    finally:
        MSG.DBusMessage._nextSerial = saved
    return out


AFFIXES = ['\n', '\r', '\r\n', '\t', ' ', '\x00', '\x0b', '\u2028', '.', '/', ':', '-', 'é',
           '\u017f', '\u212a', '\u0130', '\u0131', '\uff21', '\u0663', '\u200b',      # non-ASCII look-alikes of ASCII name characters
           '%', '%s', '%d', '{}', '{0}', '\\', '$', '*', '"', "'"]      # characters with a meaning in error-text formatting
BASES = {'path': ['/o', '/a/b_c'], 'member': ['Ping', 'm_2'], 'interface': ['a.b', 'org.verif.If_1'],
         'destination': ['c.d', ':1.42'], 'error_name': ['a.b.E', 'org.verif.Error.X9']}


def enum_reject_affixed(tier):
    """Every message class x every name-carrying argument x a valid name with one foreign character in front or behind."""
    fields = {1: {'path': '/o', 'member': 'M', 'interface': 'a.b', 'destination': 'c.d'},
              2: {'reply_serial': 5, 'destination': 'c.d'},
              3: {'error_name': 'a.b.E', 'reply_serial': 5, 'destination': 'c.d'},
              4: {'path': '/o', 'member': 'S', 'interface': 'a.b', 'destination': 'c.d'}}
    for t in (1, 2, 3, 4):
        msg = {'type': t, 'fields': dict(fields[t]), 'sig': '', 'trees': [], 'pres': [], 'no_reply': False,
               'no_auto': False, 'serial': 7, 'little': True}
        for arg in NAME_ARGS[t]:
            rec = c18.REC[c18.ARG_KIND[arg]]
            for base in BASES[arg]:
                for ch in AFFIXES:
                    for v in (base + ch, ch + base):
                        yield {'kind': 'name', 'msg': msg, 'arg': arg, 'value': v, 'valid': rec(v)}
                        if t == 3:
                            # the one constructor that also takes a sender: the other names are checked all the same
                            with_sender = dict(msg, fields=dict(msg['fields'], sender=':1.7'))
                            yield {'kind': 'name', 'msg': with_sender, 'arg': arg, 'value': v, 'valid': rec(v)}


def run_reject(case):
    from txdbus import message as MSG
    from txdbus.error import MarshallingError
    msg = dict(case['msg'])
    msg['fields'] = dict(msg['fields'])
    saved = MSG.DBusMessage._nextSerial
    try:
        if case['kind'] == 'name':
            if not case['valid'] and R.is_bus_name(case['value']):
                # the same string in a role where it IS legal, first (an invalid interface name can be a fine destination):
                # what is refused in one role stays refused whatever was built before
                try:
                    MSG.MethodReturnMessage(7, destination=case['value'])
                except Exception:
                    pass
            msg['fields'][case['arg']] = case['value']
            try:
                S.build_txdbus_message(MSG, msg)
            except MarshallingError:
                if case['valid']:
                    return [Disc('reject.valid-name-refused:%s' % case['arg'], repr(case['value']))]
                return []
            except Exception as e:
                return [Disc('reject.wrong-exception:%s:%s' % (case['arg'], type(e).__name__), exc_detail(e))]
            if not case['valid']:
                return [Disc('reject.invalid-name-accepted:%s' % case['arg'], repr(case['value']))]
            return []
        if case['kind'] == 'reserved':
            # only the reserved path ITSELF is refused: its neighbours (a longer last element, a child, the parent) are
            # ordinary paths a method call or a signal may name
            for near in ('/org/freedesktop/DBus/LocalCache', '/org/freedesktop/DBus/Local_1', '/org/freedesktop/DBus/Local/child',
                         '/org/freedesktop/DBus/Loca', '/org/freedesktop/DBus'):
                for t in (1, 4):
                    nm = dict(msg, type=t, fields=dict(msg['fields'], path=near, interface=msg['fields'].get('interface') or 'a.b'))
                    try:
                        S.build_txdbus_message(MSG, nm)
                    except Exception as e:
                        return [Disc('reject.path-next-to-the-reserved-one-refused', 'type %d path %r: %s' % (t, near, exc_detail(e)))]
            try:
                S.build_txdbus_message(MSG, msg)
            except MarshallingError:
                return []
            except Exception as e:
                return [Disc('reject.reserved-wrong-exception', exc_detail(e))]
            return [Disc('reject.reserved-path-accepted', '')]
        # size limit through subclasses with a small limit
        m = S.build_txdbus_message(MSG, msg)
        if not isinstance(getattr(m, 'rawMessage', None), bytes):
            return [Disc('reject.limit-no-raw-message', 'rawMessage is %r' % (getattr(m, 'rawMessage', None),))]
        n = len(m.rawMessage)
        limit = n + case['delta']
        saved_limit = MSG.DBusMessage._maxMsgLen
        MSG.DBusMessage._maxMsgLen = limit
        try:
            try:
                S.build_txdbus_message(MSG, msg)
                built = True
            except MarshallingError:
                built = False
            except Exception as e:
                return [Disc('reject.limit-wrong-exception', exc_detail(e))]
        finally:
            MSG.DBusMessage._maxMsgLen = saved_limit
        if built != (n <= limit):
            return [Disc('reject.limit', 'message of %d bytes, limit %d, built=%r' % (n, limit, built))]
        return []
    finally:
        MSG.DBusMessage._nextSerial = saved


def classify_reject(case):
    return True, [case['kind']] + (['valid' if case.get('valid') else 'invalid'] if case['kind'] == 'name' else [])


def enum_real_limit(tier):
    # the real 128 MiB boundary: body = one string; total = header + body
    yield {'over': 0}
    yield {'over': 1}


def run_real_limit(case):
    from txdbus import message as MSG
    from txdbus.error import MarshallingError
    saved = MSG.DBusMessage._nextSerial
    try:
        probe = MSG.MethodReturnMessage(1, body=['x'], signature='s')
        if not isinstance(getattr(probe, 'rawMessage', None), bytes):
            return [Disc('limit128.no-raw-message', 'MethodReturnMessage.rawMessage is %r' % (getattr(probe, 'rawMessage', None),))]
        overhead = len(probe.rawMessage) - 1    # header + 4 length + NUL
        target = 2**27 + case['over']
        s = 'z' * (target - overhead)
        try:
            m = MSG.MethodReturnMessage(1, body=[s], signature='s')
            built = True
            if len(m.rawMessage) != target:
                return [Disc('limit128.harness-size', '%d vs %d' % (len(m.rawMessage), target))]
        except MarshallingError:
            built = False
        except Exception as e:
            return [Disc('limit128.wrong-exception:' + type(e).__name__, exc_detail(e))]
        if built != (case['over'] == 0):
            return [Disc('limit128.boundary', 'message of 2^27+%d bytes: built=%r' % (case['over'], built))]
        return []
    finally:
        MSG.DBusMessage._nextSerial = saved


SUBCHECKS = [
    Subcheck('build', run_build, classify_build, strategy=lambda tier: build_case(tier),
             n={'quick': 400, 'thorough': 5000}),
    Subcheck('parse', run_parse, classify_parse, strategy=lambda tier: parse_case(tier),
             n={'quick': 400, 'thorough': 5000}),
    Subcheck('reject', run_reject, classify_reject, strategy=lambda tier: reject_case(tier),
             n={'quick': 300, 'thorough': 2500}),
    Subcheck('build_fds', run_build_fds, lambda c: (True, ['descriptor_messages_in_sequence']), enumerate=enum_build_fds,
             shards={'quick': 1, 'thorough': 1},
             exhaustive_note='3 sequences of 3-6 method calls carrying 0-3 descriptors each, built in one process'),
    Subcheck('reject_affixed', run_reject, classify_reject, enumerate=enum_reject_affixed, shards={'quick': 2, 'thorough': 2},
             exhaustive_note='4 message classes x their name-carrying arguments x 2 valid names x 13 foreign characters '
                             '(newline, CR, NUL, blanks, separators, non-ASCII) x {in front, behind}'),
    Subcheck('reject_same', c18.run_ctor_same, c18.classify_ctor_same, enumerate=c18.enum_ctor_same, shards={'quick': 1, 'thorough': 1},
             exhaustive_note='every constructor x every pair of its name-carrying arguments x 14 strings given for BOTH: each '
                             'argument is judged by its own grammar (interface == destination == a hyphenated bus name ...)'),
    Subcheck('limit128', run_real_limit, lambda c: (True, ['real_2^27_boundary']), enumerate=enum_real_limit,
             shards={'quick': 1, 'thorough': 1},
             exhaustive_note='the two messages of exactly 2^27 and 2^27+1 bytes'),
]
