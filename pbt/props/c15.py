"""C15 -- introspection XML round-trips interface definitions (DESIGN.md section 3, C15)."""
import xml.etree.ElementTree as ET

from hypothesis import strategies as st

from .. import refcodec as R
from .. import strategies as S
from ..core import Disc, Subcheck, exc_detail, exc_key

PROPERTY_ID = 'C15'
LEVEL = 'exploration'
RULE = ('Member names include case variants, and in every second interface signals are named like methods. relay: the parsed definitions are exported by another object and ITS XML parsed again (second generation) with the same '
        'comparison. '
        '1-3 generated interfaces, each 0-6 methods / signals / properties whose signatures are concatenations of 0-4 '
        'complete types from the full grammar (containers, nested structs, dict entries, unix fds), all four '
        '(readable, writeable) combinations and three change-notification modes, declared on a DBusObject subclass (or '
        'split over base and subclass, or with the second group on a plain mixin listed before / after the base) exported at a generated path alone or with children (child nodes are the subject of C16); some interfaces are '
        'defined step by step (addMethod / addSignal / addProperty) with the cached XML read in between, and some get '
        'temporary members that are deleted again (delMethod / delSignal / delProperty, each kind last in turn). oracle: '
        'getInterfacesFromXML(generateIntrospectionXML(..), replace) yields for every declared interface one with the '
        'same name, methods (sigIn, sigOut, nargs, nret), signals (sig, nargs) and properties (sig, access); the XML '
        'parsed independently with ElementTree lists one <arg> per complete type (reference splitter) in order with the '
        'right direction; a RemoteDBusObject built from the parsed interfaces accepts callRemote(name, *args) iff the '
        'name was declared and len(args) equals the declared count, and the outgoing call carries the declared '
        'signatures; with replace=False a locally known interface object is returned unchanged, otherwise a new one is '
        'registered. Non-trivial = some signature contains a container, or >=2 interfaces; distinct = case JSON.')
ASSUMPTIONS = ['the EmitsChangedSignal annotation is not part of the statement and is not compared']


def _build(case):
    from txdbus import interface as I
    from txdbus import objects as O
    ifs = []
    for spec in case['ifaces']:
        parts = [I.Method(m['name'], m['in'], m['out']) for m in spec['methods']]
        parts += [I.Signal(s['name'], s['sig']) for s in spec['signals']]
        for p in spec['props']:
            if p['r'] and not p['w'] and p['emits'] == 'true':
                parts.append(I.Property(p['name'], p['sig']))      # the documented defaults
            else:
                parts.append(I.Property(p['name'], p['sig'], p['r'], p['w'],
                                        {'true': True, 'false': False}.get(p['emits'], 'invalidates')))
        if case.get('incremental') and parts:
            # define the interface step by step, reading its XML in between (the XML is cached per interface)
            iface = I.DBusInterface(spec['name'], noRegister=True)
            for part in parts:
                iface.introspectionXml
                if isinstance(part, I.Method):
                    iface.addMethod(part)
                elif isinstance(part, I.Signal):
                    iface.addSignal(part)
                else:
                    iface.addProperty(part)
            if case.get('incremental', 0) >= 2:
                # members that come and go again: what is deleted must vanish from the (cached) XML as well; the kind
                # deleted last varies, since each later mutation would refresh the cache for the earlier ones
                iface.addMethod(I.Method('TmpM', 's', 's'))
                iface.addSignal(I.Signal('TmpS', 'i'))
                iface.addProperty(I.Property('TmpP', 'u'))
                dels = [lambda: iface.delMethod('TmpM'), lambda: iface.delSignal('TmpS'), lambda: iface.delProperty('TmpP')]
                k = case['incremental'] - 2
                for f in dels[k + 1:] + dels[:k + 1]:
                    iface.introspectionXml
                    f()
            ifs.append(iface)
        else:
            ifs.append(I.DBusInterface(spec['name'], *parts, noRegister=True))
    if len(case['path']) % 2 and ifs:
        # the application once tried to add members the library refuses (an unbalanced signature, something that is no
        # Method at all), caught the error and carried on: a refused addition leaves the definition as it was
        target = ifs[len(case['path']) % len(ifs)]
        for bad in (lambda: target.addMethod(I.Method('Refused__', 'a{sv')), lambda: target.addMethod(I.Method('Refused__', 's', '(i')),
                    lambda: target.addSignal(I.Signal('RefusedSig__', 'a')), lambda: target.addMethod(object())):
            try:
                bad()
            except Exception:
                pass
    k = case.get('split', len(ifs))
    Base = type('IBase', (O.DBusObject,), {'dbusInterfaces': ifs[:k]})
    ns = {'dbusInterfaces': ifs[k:]} if ifs[k:] else {}
    mix = case.get('mixin', 0)
    if mix and ifs[k:]:
        # the second group of interfaces comes from a plain mixin (not derived from DBusObject), listed after or before
        # the DBusObject-derived base: an object's interfaces are those of every class in its MRO
        Mixin = type('IMixin', (object,), ns)
        Sub = type('ISub', (Base, Mixin) if mix == 1 else (Mixin, Base), {})
    else:
        Sub = type('ISub', (Base,), ns)
    return ifs, Sub


def _norm_access(r, w):
    if w and not r:
        return 'write'
    if w and r:
        return 'readwrite'
    return 'read'


def run_case(case):
    from txdbus import interface as I
    from txdbus import introspection as X
    from txdbus import objects as O
    saved = dict(I.DBusInterface.knownInterfaces)
    out = []
    try:
        ifs, cls = _build(case)
        exports = {case['path']: cls(case['path'])}
        for ch in case['children']:
            exports[ch] = O.DBusObject(ch)
        try:
            xml = X.generateIntrospectionXML(case['path'], exports)
        except Exception as e:
            return [Disc(exc_key(e, 'xml.generate'), exc_detail(e))]
        if not isinstance(xml, str):
            return [Disc('xml.none-for-exported-object', 'generateIntrospectionXML(%r) returned %r for an exported object' % (
                case['path'], xml))]
        # ---- independent reading of the XML
        try:
            body = xml[xml.index('<node'):]
            root = ET.fromstring(body)
        except Exception as e:
            return [Disc('xml.not-well-formed', '%s\n%s' % (e, xml[:600]))]
        by_name = {el.get('name'): el for el in root.findall('interface')}
        for spec in case['ifaces']:
            el = by_name.get(spec['name'])
            if el is None:
                out.append(Disc('xml.interface-missing', spec['name']))
                continue
            for m in spec['methods']:
                me = [x for x in el.findall('method') if x.get('name') == m['name']]
                if len(me) != 1:
                    out.append(Disc('xml.method-count', '%s: %d' % (m['name'], len(me))))
                    continue
                args = [(a.get('direction'), a.get('type')) for a in me[0].findall('arg')]
                want = [('in', t) for t in R.split_signature(m['in'])] + [('out', t) for t in R.split_signature(m['out'])]
                if args != want:
                    out.append(Disc('xml.method-args', '%s(%r -> %r): expected %r got %r' % (
                        m['name'], m['in'], m['out'], want, args)))
            for s in spec['signals']:
                se = [x for x in el.findall('signal') if x.get('name') == s['name']]
                if len(se) != 1:
                    out.append(Disc('xml.signal-count', s['name']))
                    continue
                args = [a.get('type') for a in se[0].findall('arg')]
                if args != R.split_signature(s['sig']):
                    out.append(Disc('xml.signal-args', '%s(%r): got %r' % (s['name'], s['sig'], args)))
            for p in spec['props']:
                pe = [x for x in el.findall('property') if x.get('name') == p['name']]
                if len(pe) != 1 or pe[0].get('type') != p['sig'] or pe[0].get('access') != _norm_access(p['r'], p['w']):
                    out.append(Disc('xml.property', '%r -> %r' % (p, [(x.get('type'), x.get('access')) for x in pe])))
        # ---- txdbus' own parser
        pre_known = None
        if case['preregister']:
            # the first interface is already known locally under the same name (other content)
            pre_known = I.DBusInterface(case['ifaces'][0]['name'], I.Method('Other', 'i', 'i'))
        try:
            parsed = X.getInterfacesFromXML(xml, case['replace'])
        except Exception as e:
            return out + [Disc(exc_key(e, 'parse.raises'), exc_detail(e) + '\n' + xml[:500])]
        if not isinstance(parsed, list):
            return out + [Disc('parse.result-not-a-list', 'getInterfacesFromXML returned %r' % (parsed,))]
        pmap = {}
        for pi in parsed:
            pmap.setdefault(pi.name, []).append(pi)
        for idx, spec in enumerate(case['ifaces']):
            got = pmap.get(spec['name'], [])
            if len(got) != 1:
                out.append(Disc('parse.interface-count', '%s: %d' % (spec['name'], len(got))))
                continue
            pi = got[0]
            if idx == 0 and pre_known is not None and not case['replace']:
                if pi is not pre_known:
                    out.append(Disc('parse.known-interface-not-reused', spec['name']))
                continue
            if pre_known is not None and idx == 0 and case['replace'] and pi is pre_known:
                out.append(Disc('parse.known-interface-not-replaced', spec['name']))
            if I.DBusInterface.knownInterfaces.get(spec['name']) is not pi:
                out.append(Disc('parse.not-registered', spec['name']))
            wantm = {m['name']: (m['in'], m['out'], len(R.split_signature(m['in'])), len(R.split_signature(m['out'])))
                     for m in spec['methods']}
            g = getattr
            gotm = {n: (g(m, 'sigIn', '?'), g(m, 'sigOut', '?'), g(m, 'nargs', '?'), g(m, 'nret', '?')) for n, m in pi.methods.items()}
            if gotm != wantm:
                out.append(Disc('parse.methods', 'expected %r got %r' % (wantm, gotm)))
            wants = {s['name']: (s['sig'], len(R.split_signature(s['sig']))) for s in spec['signals']}
            gots = {n: (g(s, 'sig', '?'), g(s, 'nargs', '?')) for n, s in pi.signals.items()}
            if gots != wants:
                out.append(Disc('parse.signals', 'expected %r got %r' % (wants, gots)))
            wantp = {p['name']: (p['sig'], _norm_access(p['r'], p['w'])) for p in spec['props']}
            gotp = {n: (g(p, 'sig', '?'), g(p, 'access', '?')) for n, p in pi.properties.items()}
            if gotp != wantp:
                out.append(Disc('parse.properties', 'expected %r got %r' % (wantp, gotp)))
        if out:
            return out
        # ---- a proxy built from the parsed interfaces accepts exactly the declared calls
        calls = []

        class _Conn:
            def callRemote(self, path, member, **kw):
                calls.append((path, member, kw))
                return 'sent'

        class _H:
            conn = _Conn()
        declared = [pi for pi in parsed if pi.name in {s['name'] for s in case['ifaces']}]
        if pre_known is not None and not case['replace']:
            declared = [pi for pi in declared if pi is not pre_known]
        prox = O.RemoteDBusObject(_H(), 'org.verif.Peer', case['path'], declared)
        for spec in case['ifaces'][(1 if (pre_known is not None and not case['replace']) else 0):]:
            iname = spec['name']
            for m in spec['methods']:
                name = m['name']
                n = len(R.split_signature(m['in']))
                for k in sorted({n, n + 1, max(0, n - 1)}):
                    del calls[:]
                    try:
                        # the member name may exist on several interfaces: address this one
                        prox.callRemote(name, *(['x'] * k), interface=iname)
                        accepted = True
                    except TypeError:
                        accepted = False
                    except Exception as e:
                        out.append(Disc(exc_key(e, 'proxy.callRemote'), exc_detail(e)))
                        continue
                    if accepted != (k == n):
                        out.append(Disc('proxy.arity', '%s.%s declared %d args, call with %d args accepted=%r' % (
                            iname, name, n, k, accepted)))
                    if accepted and k == n:
                        kw = calls[0][2]
                        if (kw.get('signature') or '') != m['in'] or (kw.get('returnSignature') or '') != m['out'] or \
                                kw.get('interface') != iname:
                            out.append(Disc('proxy.call-signature', '%s.%s: %r' % (iname, name, kw)))
        try:
            prox.callRemote('NotDeclared__')
            out.append(Disc('proxy.undeclared-accepted', ''))
        except AttributeError:
            pass
        # a method asked for on an interface that does not declare it is not a declared call - even if another of the
        # proxy's interfaces (the last one, say) has a method of that name
        active = case['ifaces'][(1 if (pre_known is not None and not case['replace']) else 0):]
        for spec in active:
            for other in active:
                if other is spec:
                    continue
                here = {m['name'] for m in spec['methods']}
                for m in other['methods']:
                    if m['name'] in here:
                        continue
                    n = len(R.split_signature(m['in']))
                    try:
                        prox.callRemote(m['name'], *(['x'] * n), interface=spec['name'])
                        out.append(Disc('proxy.accepted-on-wrong-interface', 'callRemote(%r, interface=%r) accepted; only %r '
                                                                              'declares it' % (m['name'], spec['name'], other['name'])))
                    except (AttributeError, TypeError):
                        pass
        # ---- a relay: the PARSED definitions are themselves interface definitions; another object exports them and ITS
        # introspection XML is parsed again (second generation)
        if declared and not out:
            relay = type('Relay', (O.DBusObject,), {'dbusInterfaces': list(declared)})(case['path'])
            try:
                xml2 = X.generateIntrospectionXML(case['path'], {case['path']: relay})
                parsed2 = X.getInterfacesFromXML(xml2, True)
            except Exception as e:
                return out + [Disc(exc_key(e, 'relay.exception'), exc_detail(e))]
            p2 = {pi.name: pi for pi in (parsed2 or [])}
            g = getattr
            for spec in active:
                pi = p2.get(spec['name'])
                if pi is None:
                    out.append(Disc('relay.interface-missing', spec['name']))
                    continue
                wantm = {m['name']: (m['in'], m['out'], len(R.split_signature(m['in'])), len(R.split_signature(m['out'])))
                         for m in spec['methods']}
                gotm = {n: (g(m, 'sigIn', '?'), g(m, 'sigOut', '?'), g(m, 'nargs', '?'), g(m, 'nret', '?')) for n, m in pi.methods.items()}
                if gotm != wantm:
                    out.append(Disc('relay.methods', 'a parsed definition exported again: expected %r got %r' % (wantm, gotm)))
                wants = {s['name']: (s['sig'], len(R.split_signature(s['sig']))) for s in spec['signals']}
                gots = {n: (g(s, 'sig', '?'), g(s, 'nargs', '?')) for n, s in pi.signals.items()}
                if gots != wants:
                    out.append(Disc('relay.signals', 'expected %r got %r' % (wants, gots)))
                wantp = {p['name']: (p['sig'], _norm_access(p['r'], p['w'])) for p in spec['props']}
                gotp = {n: (g(p, 'sig', '?'), g(p, 'access', '?')) for n, p in pi.properties.items()}
                if gotp != wantp:
                    out.append(Disc('relay.properties', 'expected %r got %r' % (wantp, gotp)))
    except Exception as e:
        out.append(Disc(exc_key(e, 'c15.exception'), exc_detail(e)))
    finally:
        I.DBusInterface.knownInterfaces.clear()
        I.DBusInterface.knownInterfaces.update(saved)
    return out


def classify(case):
    sigs = []
    for spec in case['ifaces']:
        for m in spec['methods']:
            sigs += [m['in'], m['out']]
        sigs += [s['sig'] for s in spec['signals']] + [p['sig'] for p in spec['props']]
    cont = any(S.has_container(s) for s in sigs)
    labels = []
    if cont:
        labels.append('container_signature')
    if len(case['ifaces']) >= 2:
        labels.append('>=2 interfaces')
    for spec in case['ifaces']:
        for kind in ('methods', 'signals', 'props'):
            low = [m['name'].lower() for m in spec[kind]]
            if len(set(low)) != len(low):
                labels.append('names_differing_only_in_case')
        if {m['name'] for m in spec['methods']} & {m['name'] for m in spec['signals']}:
            labels.append('method_and_signal_share_a_name')
    if case['preregister']:
        labels.append('known_' + ('replace' if case['replace'] else 'reuse'))
    if case['children']:
        labels.append('children')
    return cont or len(case['ifaces']) >= 2, labels


# member names are case-sensitive and compared whole: the pool holds names that differ only in letter case, in a trailing
# underscore or digit, or by being a prefix of another
_names = st.sampled_from(['Alpha', 'Beta', 'Gamma', 'Delta', 'Eps', 'Zeta', 'Eta', 'Theta',
                          'alpha', 'ALPHA', 'Alpha_', 'beta', 'Eps2', 'Et', '_Eta'])


@st.composite
def gen_case(draw, tier):
    depth = 2 if tier == 'quick' else 3
    sig = S.signature(max_types=4, depth=depth, allow_h=True)
    single = S.complete_type(depth, allow_h=True)
    ifaces = []
    for k in range(draw(st.integers(1, 3))):
        mn = draw(st.lists(_names, max_size=6, unique=True))
        sn = draw(st.lists(_names, max_size=4, unique=True))
        pn = draw(st.lists(_names, max_size=4, unique=True))
        ifaces.append({
            'name': 'org.verif.I%d' % k,
            'methods': [{'name': n, 'in': draw(sig), 'out': draw(sig)} for n in mn],
            # methods and signals have name spaces of their own: in every second interface signals may be called like methods
            'signals': [{'name': n + ('Sig' if k % 2 else ''), 'sig': draw(sig)} for n in sn],
            'props': [{'name': n + 'Prop', 'sig': draw(single), 'r': draw(st.booleans()), 'w': draw(st.booleans()),
                       'emits': draw(st.sampled_from(['true', 'false', 'invalidates']))} for n in pn],
        })
    path = draw(S.object_path)
    kids = []
    if draw(st.booleans()):
        base = path.rstrip('/')
        for el in draw(st.lists(st.sampled_from(['k', 'k2', 'kk', 'm']), max_size=3, unique=True)):
            kids.append(base + '/' + el + draw(st.sampled_from(['', '/deep', '/deep/er'])))
        kids = sorted(set(kids))
    return {'ifaces': ifaces, 'split': draw(st.integers(0, len(ifaces))), 'path': path, 'children': kids,
            'replace': draw(st.booleans()), 'preregister': draw(st.integers(0, 2)) == 0,
            'incremental': draw(st.sampled_from([0, 0, 0, 1, 1, 2, 3, 4])),
            'mixin': draw(st.sampled_from([0, 0, 1, 2]))}


def enum_remote_object(tier):
    for how in ('none', 'known-name', 'both-names', 'explicit', 'unknown-name'):
        for replace in (False, True):
            yield {'how': how, 'replace': replace}
            # the same through the application-facing methods of a real connection (which have defaults of their own)
            yield {'how': how, 'replace': replace, 'via': 'connection'}
    for replace in (False, True):
        yield {'how': 'introspect-only', 'replace': replace, 'via': 'connection'}


def run_remote_object(case):
    """Which definition a proxy ends up with when getRemoteObject is told interfaces by name, by object, or not at all,
    with an older definition of one interface known locally: known definitions are reused unless replacement is asked for
    (then the exporter's own, freshly parsed definition counts); an explicitly passed definition needs no introspection."""
    from twisted.internet import defer
    from txdbus import interface as I
    from txdbus import introspection as X
    from txdbus import objects as O
    saved = dict(I.DBusInterface.knownInterfaces)
    out = []
    rig = None
    try:
        calc = I.DBusInterface('org.verif.Calc', I.Method('Add', 'ii', 'i'), I.Method('Neg', 'i', 'i'), noRegister=True)
        extra = I.DBusInterface('org.verif.Extra', I.Method('Ping', '', ''), noRegister=True)
        Exp = type('Exp', (O.DBusObject,), {'dbusInterfaces': [calc, extra]})
        xml = X.generateIntrospectionXML('/calc', {'/calc': Exp('/calc')})
        I.DBusInterface.knownInterfaces.pop('org.verif.Extra', None)
        old = I.DBusInterface('org.verif.Calc', I.Method('Add', 'i', 'i'))            # known locally, out of date
        mine = I.DBusInterface('org.verif.Calc', I.Method('Add', 'iii', 'i'), noRegister=True)
        asked = []

        class _Conn:
            def introspectRemoteObject(self, busName, path, replace):
                asked.append(replace)
                return defer.succeed(X.getInterfacesFromXML(xml, replace))
        if case.get('via') == 'connection':
            from .. import simnet as N
            from .. import refcodec as R
            try:
                rig = N.ClientRig(unix=False)
            except N.RigFailure as e:
                return [Disc('remote.establish-failed', str(e))]
            rig.sent_messages()
            h = rig.conn
        else:
            h = O.DBusObjectHandler(_Conn())
        res = []
        if case['how'] == 'introspect-only':
            # conn.introspectRemoteObject(): the definitions it returns reuse what is known unless told otherwise
            d = (h.introspectRemoteObject('org.verif.Peer', '/calc', replaceKnownInterfaces=True) if case['replace']
                 else h.introspectRemoteObject('org.verif.Peer', '/calc'))
            d.addBoth(res.append)
            sent = [m for k, m in rig.sent_messages() if k == 'msg']
            if len(sent) == 1:
                N.deliver(rig.conn, R.encode_message(2, 77, {5: sent[0]['serial']}, 's', [xml]))
            rig.close_rig()
            if len(res) != 1 or not isinstance(res[0], list):
                return [Disc('remote.introspectRemoteObject-failed', repr(res))]
            c = {i.name: i for i in res[0]}.get('org.verif.Calc')
            got = getattr(c.methods.get('Add'), 'sigIn', None) if c is not None else None
            if got != ('ii' if case['replace'] else 'i'):
                out.append(Disc('remote.introspect-only-definition:replace=%s' % case['replace'],
                                'introspectRemoteObject returned Calc.Add(%r)' % (got,)))
            return out
        arg = {'none': None, 'known-name': 'org.verif.Calc', 'both-names': ['org.verif.Calc', 'org.verif.Extra'],
               'explicit': [mine], 'unknown-name': ['org.verif.Extra']}[case['how']]
        if case['replace'] or (case['how'] in ('none', 'explicit') and rig is None):
            h.getRemoteObject('org.verif.Peer', '/calc', arg, replaceKnownInterfaces=case['replace']).addBoth(res.append)
        else:
            h.getRemoteObject('org.verif.Peer', '/calc', arg).addBoth(res.append)      # reuse is the documented default
        if rig is not None:
            sent = [m for k, m in rig.sent_messages() if k == 'msg']
            if sent:
                asked.append(case['replace'])
                N.deliver(rig.conn, R.encode_message(2, 77, {5: sent[0]['serial']}, 's', [xml]))
            rig.close_rig()
        if len(res) != 1 or not hasattr(res[0], 'interfaces'):
            return [Disc('remote.getRemoteObject-failed:%s' % case['how'], repr(res))]
        byname = {i.name: i for i in res[0].interfaces}
        introspects = case['how'] in ('none', 'both-names', 'unknown-name')
        if bool(asked) != introspects:
            out.append(Disc('remote.introspection-%s:%s' % ('missing' if introspects else 'unneeded', case['how']), repr(asked)))
        if case['how'] == 'explicit':
            want_add = 'iii'
        elif case['how'] == 'known-name':
            want_add = 'i'
        elif case['how'] == 'unknown-name':
            want_add = None         # whether the proxy also carries the other introspected interfaces is not asserted
        else:
            want_add = 'ii' if case['replace'] else 'i'
        c = byname.get('org.verif.Calc')
        if want_add is not None:
            got = getattr(c.methods.get('Add'), 'sigIn', None) if c is not None else None
            if got != want_add:
                out.append(Disc('remote.definition:%s,replace=%s' % (case['how'], case['replace']),
                                'proxy has Calc.Add(%r), expected Add(%r)' % (got, want_add)))
        if introspects and 'org.verif.Extra' not in byname:
            out.append(Disc('remote.introspected-interface-missing:%s' % case['how'], sorted(byname)))
    except Exception as e:
        out.append(Disc(exc_key(e, 'remote.exception'), exc_detail(e)))
    finally:
        if rig is not None:
            rig.close_rig()
        I.DBusInterface.knownInterfaces.clear()
        I.DBusInterface.knownInterfaces.update(saved)
    return out


SUBCHECKS = [
    Subcheck('roundtrip', run_case, classify, strategy=lambda tier: gen_case(tier),
             n={'quick': 300, 'thorough': 3000}),
    Subcheck('remote_object', run_remote_object, lambda c: (True, [c['how'], 'via_' + c.get('via', 'handler')]), enumerate=enum_remote_object,
             shards={'quick': 1, 'thorough': 1},
             exhaustive_note='getRemoteObject with interfaces given not at all / by known name / by known and unknown name / '
                             'as an object / by unknown name x replaceKnownInterfaces off and on, an out-of-date definition '
                             'being known locally'),
]
