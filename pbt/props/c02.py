"""C02 -- bytes are exactly the D-Bus wire format, both directions (DESIGN.md section 3, C02)."""
from .. import refcodec as R
from ..core import Disc, Subcheck, exc_detail, exc_key
from . import _mcommon as C

PROPERTY_ID = 'C02'
LEVEL = 'exploration'
RULE = ('Differential against refcodec (an encoder/decoder written from the specification, validated on every run '
        'against the byte vectors pinned in tests/test_marshal.py). encode: same generated space as C01, '
        'b"".join(marshal(...)) must equal the reference bytes. decode: reference bytes (including shapes txdbus '
        'cannot produce: variant in variant, unix fd in variant) must unmarshal to the encoded value and consume '
        'every byte. grid (exhaustive): 17 type codes x offsets 0..63 x 2 byte orders, pad length == (-off) mod '
        'alignment and all pad bytes zero. no_encoding: strings with an embedded NUL (plain, in arrays, dict keys / '
        'values, structs, variants) have no encoding and must be refused with MarshallingError. Non-trivial as in C01; distinct = distinct canonical JSON case.')
ASSUMPTIONS = ['refcodec is the trusted base; it shares no code or tables with txdbus'] + [
    'same input-domain guards as C01']


def run_encode(case):
    from txdbus import marshal as M
    sig, trees, le, off = case['sig'], case['trees'], case['le'], case['off']
    try:
        n, data, fds = C.do_marshal(M, case)
    except Exception as e:
        return [Disc(exc_key(e, 'enc.marshal'), exc_detail(e))]
    rfds = []
    ref = R.encode(sig, trees, off, le, rfds)
    out = []
    try:
        n2, data2, fds2 = C.do_marshal(M, case)      # asked again, the encoder gives the same bytes (nothing is remembered)
        if (n2, data2, fds2) != (n, data, fds):
            out.append(Disc('enc.not-repeatable', 'sig=%r: second encoding differs from the first' % sig))
    except Exception as e:
        out.append(Disc(exc_key(e, 'enc.marshal-again'), exc_detail(e)))
    if data != ref:
        out.append(Disc('enc.bytes-differ', 'sig=%r off=%d le=%s\n txdbus=%s\n ref   =%s' % (
            sig, off, le, data.hex(), ref.hex())))
    if 'h' in sig and fds != rfds:
        out.append(Disc('enc.fd-list-differs', '%r vs %r' % (fds, rfds)))
    if 'code' in case:   # alignment grid
        align = R.ALIGN[sig[0]]   # '{' is exercised inside its array: outer alignment is the array's
        padn = (-off) % align
        if data[:padn] != b'\0' * padn or len(data) < padn:
            out.append(Disc('enc.grid-padding', 'code %s off %d: %r' % (case['code'], off, data[:8])))
        if len(data) != len(ref):
            out.append(Disc('enc.grid-length', 'code %s off %d' % (case['code'], off)))
    return out


def run_decode(case):
    from txdbus import marshal as M
    sig, trees, le, off = case['sig'], case['trees'], case['le'], case['off']
    rfds = []
    ref = R.encode(sig, trees, off, le, rfds)
    try:
        n, vals = M.unmarshal(sig, b'\xaa' * off + ref, off, le, rfds)
    except Exception as e:
        return [Disc(exc_key(e, 'dec.unmarshal'), exc_detail(e) + '\nsig=%r bytes=%s' % (sig, ref.hex()))]
    out = []
    exp = C.expected_nf(sig, trees)
    if not R.nf_equal(vals, exp):
        out.append(Disc('dec.value-mismatch', 'sig=%r expected %r got %r' % (sig, exp, vals)))
    if n != len(ref):
        out.append(Disc('dec.consumed', 'consumed %d of %d' % (n, len(ref))))
    return out


def enum_far_offset(tier):
    """A small array that starts far into a large body: the limit on an array is its own length (2^26 bytes), not where in
    the message it ends (a body may have 2^27 bytes)."""
    for le in (True, False):
        yield {'lead_bytes': 2**26, 'le': le}
    yield {'lead_bytes': 2**26 + 4099, 'le': True}


def run_far_offset(case):
    from txdbus import marshal as M
    lead = 'L' * case['lead_bytes']
    trees = [lead, [1, 2, 3], [['k', ['u', 7]]]]
    sig = 'saia{sv}'
    ref = R.encode(sig, trees, 0, case['le'], [])
    out = []
    try:
        n, vals = M.unmarshal(sig, ref, 0, case['le'])
    except Exception as e:
        return [Disc(exc_key(e, 'far.unmarshal'), 'conformant encoding with arrays beyond offset 2^26 refused: ' + exc_detail(e))]
    if n != len(ref) or vals[0] != lead or not R.nf_equal(vals[1:], [[1, 2, 3], {'k': 7}]):
        out.append(Disc('far.decoded-value', 'consumed %d of %d; tail %r' % (n, len(ref), vals[1:])))
    try:
        n2, chunks = M.marshal(sig, [lead, [1, 2, 3], {'k': M.UInt32(7)}], 0, case['le'])
        if b''.join(chunks) != ref:
            out.append(Disc('far.encoded-bytes', 'encoding differs from the reference beyond the leading string'))
    except Exception as e:
        out.append(Disc(exc_key(e, 'far.marshal'), exc_detail(e)))
    return out


def enum_no_encoding(tier):
    """Values for which the specification defines NO encoding (a string with an embedded NUL cannot be NUL-terminated
    text): the encoder must refuse them, not emit bytes another implementation would read as something else."""
    for text in ('\x00', 'a\x00b', 'ab\x00', '\x00ab'):
        for sig, val in (('s', [text]), ('as', [['ok', text]]), ('a{ss}', [{'k': text}]), ('a{ss}', [{text: 'v'}]),
                         ('(is)', [(1, text)]), ('v', [text])):
            for le in (True, False):
                yield {'sig': sig, 'value': repr(val), 'le': le}


def run_no_encoding(case):
    from txdbus import marshal as M
    from txdbus.error import MarshallingError
    val = eval(case['value'], {})
    try:
        n, chunks = M.marshal(case['sig'], val, 0, case['le'])
    except MarshallingError:
        return []
    except Exception as e:
        return [Disc(exc_key(e, 'enc.nul.wrong-exception'), exc_detail(e))]
    return [Disc('enc.nul.string-with-embedded-NUL-encoded', 'sig %r value %s -> %s' % (
        case['sig'], case['value'], b''.join(chunks).hex()))]


SUBCHECKS = [
    Subcheck('encode', run_encode, C.classify_marshal,
             strategy=lambda tier: C.marshal_case(tier),
             n={'quick': 600, 'thorough': 6000}),
    Subcheck('decode', run_decode, C.classify_marshal,
             strategy=lambda tier: C.marshal_case(tier, decode_side=True),
             n={'quick': 400, 'thorough': 5000}),
    Subcheck('grid_enc', run_encode, C.classify_marshal,
             enumerate=lambda tier: C.grid_cases(64), shards={'quick': 2, 'thorough': 2},
             exhaustive_note='17 type codes x 64 start offsets x 2 byte orders: bytes, pad length, zero padding'),
    Subcheck('grid_dec', run_decode, C.classify_marshal,
             enumerate=lambda tier: C.grid_cases(64), shards={'quick': 2, 'thorough': 2},
             exhaustive_note='17 type codes x 64 start offsets x 2 byte orders, decode direction'),
    Subcheck('far_offset', run_far_offset, lambda c: (True, ['array_beyond_2^26']), enumerate=enum_far_offset,
             shards={'quick': 3, 'thorough': 3},
             exhaustive_note='small arrays placed behind a 64 MiB string (3 layouts): decoded and encoded like anywhere else'),
    Subcheck('no_encoding', run_no_encoding, lambda c: (True, ['embedded_nul']), enumerate=enum_no_encoding,
             shards={'quick': 1, 'thorough': 1},
             exhaustive_note='4 strings with an embedded NUL x 6 positions (plain, array element, dict key / value, struct '
                             'member, variant content) x 2 byte orders must be refused with MarshallingError'),
]
