"""C01 -- marshal then unmarshal is the identity (DESIGN.md section 3, C01)."""
from .. import refcodec as R
from ..core import Disc, Subcheck, exc_detail, exc_key
from . import _mcommon as C

PROPERTY_ID = 'C01'
LEVEL = 'exploration'
RULE = ('Hypothesis draws 1-4 complete types from the D-Bus type grammar (depth<=3 quick, <=5 thorough, '
        'plus a class at the 32/32 nesting limits), a conforming boundary-heavy value tree, a presentation '
        '(struct as list/tuple/dbusOrder object, dict as dict/pairs, ay as bytearray/list, wrapper classes), '
        'byte order and start offset 0..15; oracle: unmarshal(marshal(x)) == normal form of x, byte counts agree, '
        'marshal(s1+s2) == marshal(s1)++marshal(s2 at shifted offset). grid: every type code x 16 offsets x 2 orders '
        '(exhaustive). size_limit: string arrays with exactly 2^26-1 and 2^26 bytes of element data (the largest legal array) round-trip. Non-trivial = signature has a container/variant/string-like type, or offset%8!=0, or big-endian; '
        'distinct = distinct canonical JSON of the whole case.')
ASSUMPTIONS = [
    'values offered are only those struct.pack accepts for the type; strings exclude NUL and lone surrogates',
    'a variant never directly holds a variant or any unix fd on the encode side (inexpressible through sigFromPy)',
    'dict keys are unique under Python equality; NaN is not used as a dict key',
]


def run_roundtrip(case):
    from txdbus import marshal as M
    out = []
    sig, trees, le, off = case['sig'], case['trees'], case['le'], case['off']
    try:
        n, data, fds = C.do_marshal(M, case)
    except Exception as e:
        return [Disc(exc_key(e, 'rt.marshal'), exc_detail(e))]
    if n != len(data):
        out.append(Disc('rt.nbytes!=len(chunks)', 'reported %d, produced %d' % (n, len(data))))
    try:
        n2, vals = M.unmarshal(sig, b'\xaa' * off + data, off, le, fds)
    except Exception as e:
        return out + [Disc(exc_key(e, 'rt.unmarshal'), exc_detail(e))]
    exp = C.expected_nf(sig, trees)
    if not R.nf_equal(vals, exp):
        out.append(Disc('rt.value-mismatch', 'sig=%r expected %r got %r' % (sig, exp, vals)))
    if n2 != n:
        out.append(Disc('rt.consumed!=produced', 'marshal %d, unmarshal %d' % (n, n2)))
    # offset threading
    types = R.split_inner(sig)
    if len(types) >= 2 and not out:
        k = 1 + (sum(case['pres']) % (len(types) - 1)) if case['pres'] else 1
        s1, s2 = ''.join(types[:k]), ''.join(types[k:])
        try:
            shared = []   # one out-of-band list threaded through both halves
            n1, d1, f1 = C.do_marshal(M, case, s1, trees[:k], off, fds=shared)
            nb, d2, f2 = C.do_marshal(M, case, s2, trees[k:], off + n1, fds=shared)
            if d1 + d2 != data or n1 + nb != n:
                out.append(Disc('rt.concat-mismatch', 'split at %d: %r + %r != %r' % (k, d1, d2, data)))
        except Exception as e:
            out.append(Disc(exc_key(e, 'rt.concat'), exc_detail(e)))
    return out


def enum_size_limit(tier):
    """Arrays whose element data is just below, and exactly at, the largest size the specification allows (2^26 bytes)."""
    for total in (2**26 - 1, 2**26):
        for le in (True, False):
            yield {'array_bytes': total, 'le': le, 'shape': 'one'}
    yield {'array_bytes': 2**26, 'le': True, 'shape': 'four'}


def run_size_limit(case):
    from txdbus import marshal as M
    total = case['array_bytes']
    if case['shape'] == 'one':
        strings = ['s' * (total - 5)]            # 4-byte length + text + NUL = total bytes of element data
    else:
        strings = ['q' * (total // 4 - 5)] * 4   # each element 2^24 bytes (a multiple of 4: no padding in between)
    out = []
    try:
        n, chunks = M.marshal('as', [strings], 0, case['le'])
        data = b''.join(chunks)
    except Exception as e:
        return [Disc(exc_key(e, 'limit.marshal'), '%d bytes of array data: %s' % (total, exc_detail(e)))]
    import struct
    declared = struct.unpack_from('<I' if case['le'] else '>I', data, 0)[0]
    if declared != total or n != len(data) or len(data) != 4 + total:
        out.append(Disc('limit.encoding', 'array data %d: length field %d, reported %d, produced %d' % (total, declared, n, len(data))))
    try:
        n2, vals = M.unmarshal('as', data, 0, case['le'])
    except Exception as e:
        return out + [Disc(exc_key(e, 'limit.unmarshal'), 'the decoder refuses %d bytes of array data it has just been given '
                           'by the encoder: %s' % (total, exc_detail(e)))]
    if vals != [strings] or n2 != n:
        out.append(Disc('limit.roundtrip', 'array data %d: consumed %d of %d, equal=%r' % (total, n2, n, vals == [strings])))
    return out


SUBCHECKS = [
    Subcheck('roundtrip', run_roundtrip, C.classify_marshal,
             strategy=lambda tier: C.marshal_case(tier),
             n={'quick': 800, 'thorough': 6000}, shards={'quick': 4, 'thorough': 16}),
    Subcheck('grid', run_roundtrip, C.classify_marshal,
             enumerate=lambda tier: C.grid_cases(16),
             shards={'quick': 1, 'thorough': 1},
             exhaustive_note='17 type codes x 16 start offsets x 2 byte orders, one boundary value each'),
    Subcheck('size_limit', run_size_limit, lambda c: (True, ['array_bytes=2^26' if c['array_bytes'] == 2**26 else 'array_bytes=2^26-1']),
             enumerate=enum_size_limit, shards={'quick': 5, 'thorough': 5},
             exhaustive_note='string arrays with exactly 2^26-1 and 2^26 bytes of element data (the largest legal array), '
                             'both byte orders, one and four elements'),
]
