"""Shared pieces of the marshal-level checks (C01, C02, C19)."""
from hypothesis import strategies as st

from .. import refcodec as R
from .. import strategies as S
from ..core import Disc, exc_detail, exc_key

ALL_CODES = ['y', 'b', 'n', 'q', 'i', 'u', 'x', 't', 'd', 's', 'o', 'g', 'a', '(', 'v', '{', 'h']

# one representative (type, boundary tree) per type code, for the exhaustive grids
GRID_VALUES = {
    'y': ('y', 255), 'b': ('b', True), 'n': ('n', -2**15), 'q': ('q', 2**16 - 1),
    'i': ('i', -2**31), 'u': ('u', 2**32 - 1), 'x': ('x', -2**63), 't': ('t', 2**64 - 1),
    'd': ('d', 'fff8000000000001'), 's': ('s', 'é€'), 'o': ('o', '/a/b'), 'g': ('g', 'a{sv}'),
    'a': ('ax', []), '(': ('(yx)', [1, 2]), 'v': ('v', ['x', 5]), '{': ('a{yx}', [[1, 2]]),
    'h': ('h', 77),
}


@st.composite
def marshal_case(draw, tier='quick', allow_h=True, decode_side=False):
    depth = 3 if tier == 'quick' else draw(st.sampled_from([2, 3, 3, 4, 5]))
    if decode_side and draw(st.integers(0, 24)) == 0:
        sig, trees = draw(S.big_values())
        if draw(st.booleans()):
            sig, trees = 'y' + sig, [7] + trees
    elif decode_side:
        n = draw(st.integers(1, 3))
        types = [draw(S.complete_type(depth, allow_h=True)) for _ in range(n)]
        sig = ''.join(types)
        if len(sig) > 255:
            types = types[:1]
            sig = types[0]
        trees = [draw(S.decode_side_tree(t)) for t in types]
    else:
        sig, trees = draw(S.typed_values(max_types=4, depth=depth, allow_h=allow_h, limits=True, big=True))
    return {
        'sig': sig, 'trees': trees,
        'pres': draw(S.presentation),
        'le': draw(st.booleans()),
        'off': draw(st.integers(0, 15)),
    }


def classify_marshal(case):
    sig = case['sig']
    labels = []
    cont = S.has_container(sig)
    stringy = any(c in sig for c in 'sog')
    if cont:
        labels.append('container')
    if 'v' in sig:
        labels.append('variant')
    if 'a{' in sig:
        labels.append('dict')
    if 'h' in sig:
        labels.append('unix_fd')
    if not case['le']:
        labels.append('big_endian')
    if case['off'] % 8:
        labels.append('unaligned_start')
    d = sig.count('a') + sig.count('(')
    labels.append('depth>=3' if d >= 3 else 'depth<3')
    if 'a' * 32 in sig or '(' * 32 in sig:
        labels.append('at_nesting_limit')
    if len(repr(case['trees'])) > 2000:
        labels.append('big_value')
    canon = repr(case['trees'])
    if '[]' in canon:
        labels.append('empty_container')
    nontrivial = cont or stringy or case['off'] % 8 != 0 or not case['le']
    return nontrivial, labels


def grid_cases(noffsets):
    for code in ALL_CODES:
        t, tree = GRID_VALUES[code]
        for off in range(noffsets):
            for le in (True, False):
                yield {'sig': t, 'trees': [tree], 'pres': [0], 'le': le, 'off': off, 'code': code}


def do_marshal(M, case, sig=None, trees=None, off=None, pres=None, fds=None):
    sig = case['sig'] if sig is None else sig
    trees = case['trees'] if trees is None else trees
    off = case['off'] if off is None else off
    vals = S.to_py_list(sig, trees, case['pres'] if pres is None else pres)
    if fds is None:
        fds = [] if 'h' in sig else None
    n, chunks = M.marshal(sig, vals, off, case['le'], fds)
    return n, b''.join(chunks), fds


def expected_nf(sig, trees):
    return S.normal_forms(sig, trees)


__all__ = ['Disc', 'exc_key', 'exc_detail', 'R', 'S']
