"""C05 -- hostile bytes are rejected in bounded work (DESIGN.md section 3, C05)."""
import os
import struct

from hypothesis import strategies as st

from .. import budget as B
from .. import refcodec as R
from .. import simnet as N
from .. import strategies as S
from ..core import Disc, Subcheck, exc_detail

PROPERTY_ID = 'C05'
LEVEL = 'exploration'
LINES_BASE, LINES_PER_BYTE = 20000, 20000
NODES_BASE, NODES_PER_BYTE = 1000, 64
TEXT_BASE, TEXT_PER_BYTE = 1000, 2      # every decoded character comes from a byte of its own
RULE = ('additive: valid messages with 60 / 400 (/ 1500) unknown header fields and a 250..2000-element body, SIGNATURE field first / '
        'in the middle / last: traced lines for the whole <= 3 x (fields alone + body alone) + 5000 (a relation between three '
        'runs on the same interpreter, no absolute budget). overlap: bodies of nested arrays (aas, aao, aaay, aag, a(s)) built of 64 / 1000 / 3000 eight-byte frames in which the '
        'inner container under-claims its length while its element over-claims past the end of the message, the outer length '
        'chosen so a decoder that trusts declared extents walks frame by frame (sibling values that would overlap). '
        'repeat also holds 800 KB dictionaries with one repeated key (30 s against 0.2 s); deep_valid also holds long body '
        'signatures smuggled in through a SIGNATURE field of type STRING / OBJECT_PATH, and chains of 4..40 nested variants whose signatures carry two or three complete types (forbidden, '
        'tolerated by lenient decoders): work must not double per level. repeat: messages under 300 bytes carrying 24 / 40 / 80 repetitions of a legal name unit plus one illegal character in a '
        'header field or body value must be answered within 20 s (the only wall-clock oracle; this tree needs < 1 ms). '
        'copy_work: valid messages with 300 / 3000 small containers decoded from a bytes subclass that counts the bytes '
        'slicing copies (work inside C primitives, which the line budget cannot see): at most 8x the message length. '
        'inputs: every truncation of generated valid messages (exhaustive per message), 1-3 byte mutations (bit flip, '
        '00, ff, 7f, 80, random), every length field of the message (body length, header array length, string / array / '
        'signature lengths, located through the reference encoder offset map) rewritten to 0, +-1, 2^31, 2^32-1, '
        'rest-of-buffer+-1, hostile signatures (zero-size array elements a() a{} a(()()), nesting to 254, unterminated '
        'containers, trailing a, unknown codes, empty variant signature) in the SIGNATURE header field with arbitrary body '
        'bytes and inside body variants, well-formed messages whose UNIX_FDS header claims up to 2^32-1 descriptors, and '
        'raw random bytes, and well-formed bodies nested up to 28 levels deep (written by the library itself); entry points parseMessage, unmarshal and dataReceived of a '
        'pre-authenticated protocol. oracle: the call returns or raises an Exception within %d+%d*n traced interpreter '
        'lines inside txdbus (sys.settrace step budget, no wall clock), a returned value has <= %d+%d*n nodes and holds at most 1000+2*n characters of text, and a '
        'fixed valid message still parses afterwards. Non-trivial = the input differs from the valid message it was '
        'derived from and is >= 16 bytes (reaches header decoding); distinct = distinct input case JSON.'
        % (LINES_BASE, LINES_PER_BYTE, NODES_BASE, NODES_PER_BYTE))
ASSUMPTIONS = ['any Exception subclass (including RecursionError) is a bounded rejection; only exceeding the step budget, '
               'MemoryError or an oversized result is a violation',
               'the budget constant is generous on purpose (12.5k lines/byte measured for a 127-deep struct array): the '
               'check targets loops and unbounded growth, not constant factors']

HOSTILE_SIGS = [
    'a()', 'a{}', 'a(()())', 'aa()', 'a(a())', 'a{}a{}', '()', '{}', 'a' * 254 + 'y', 'a' * 255, '(' * 127 + 'y' + ')' * 127,
    'a' + '(' * 126 + 'y' + ')' * 126, '(((', '(i', 'a{s', '{', '}', ')', 'ai)', 'a', 'ia', 'z', 'i z', '', 'a{ii', 'a{(i)i}',
    'a(' + 'a' * 100 + 'y)', 'v' * 255, 'a{sv}' * 51, '(' + 'i' * 253 + ')', 'a(y', 'aa', 'a)', 'a}',
    # every element type with a lying array length, in particular those whose decoder might not look at the bytes:
    # descriptors (resolved through a side list), booleans, empty-ish structs
    'ah', 'a(h)', 'a{sh}', 'a(hy)', 'aah', 'ab', 'a(b)', 'ad', 'ax', 'ag', 'ao', 'a(yh)', 'av',
]

_CANARY = R.encode_message(1, 5, {1: '/a', 3: 'Ping', 6: 'a.b'}, 'sau', ['x', [1, 2]])


def _result_nodes(v):
    return R.count_nodes(v)


def _message_nodes(m):
    n = 1
    b = getattr(m, 'body', None)
    if b is not None:
        n += R.count_nodes(b)
    return n


def _judge(name, status, value, meter, nbytes, nodes_fn, detail):
    if status == 'budget':
        return [Disc('%s.step-budget-exceeded' % name,
                     '%d traced lines for %d input bytes (budget %d): %s' % (meter.count, nbytes, meter.limit, detail))]
    if status == 'memory':
        return [Disc('%s.memory-error' % name, detail)]
    if status == 'ok':
        try:
            nodes = nodes_fn(value)
        except RecursionError:
            nodes = 0
        if nodes > NODES_BASE + NODES_PER_BYTE * nbytes:
            return [Disc('%s.oversized-result' % name, '%d nodes from %d bytes: %s' % (nodes, nbytes, detail))]
        try:
            chars = R.count_chars(getattr(value, 'body', None) if name == 'parseMessage' else
                                  (value[1] if name == 'unmarshal' else None))
        except RecursionError:
            chars = 0
        if chars > TEXT_BASE + TEXT_PER_BYTE * nbytes:
            return [Disc('%s.oversized-text' % name, '%d characters of text from %d bytes: %s' % (chars, nbytes, detail))]
    return []


def _attack(data, sig=None):
    """Run the three entry points on one hostile byte string."""
    from txdbus import marshal as M
    from txdbus import message as MSG
    import txdbus.protocol as P
    out = []
    n = len(data)
    limit = LINES_BASE + LINES_PER_BYTE * n
    desc = 'input=%s' % (data.hex() if n <= 300 else data[:300].hex() + '...')
    m = B.Meter(limit)
    st_, v = m.run(MSG.parseMessage, data, [])
    out += _judge('parseMessage', st_, v, m, n, _message_nodes, desc)
    if sig is not None:
        m = B.Meter(LINES_BASE + LINES_PER_BYTE * (n + len(sig)))
        st_, v = m.run(M.unmarshal, sig, data, 0, True, [])
        out += _judge('unmarshal', st_, v, m, n, lambda r: _result_nodes(r[1]), 'sig=%r %s' % (sig, desc))
    # framed through the protocol
    p = P.BasicDBusProtocol()
    p.transport = N.FakeTransport()
    p._receivedFDs = []
    p._authenticated = True
    m = B.Meter(limit)
    st_, v = m.run(p.dataReceived, data)
    out += _judge('dataReceived', st_, None, m, n, lambda r: 0, desc)
    held = getattr(p, '_buffer', b'')
    if len(held) > n:
        out.append(Disc('dataReceived.buffer-grew', '%d > %d' % (len(held), n)))
    # no global damage
    try:
        c = MSG.parseMessage(_CANARY, [])
        if c.member != 'Ping' or c.body != ['x', [1, 2]] or c.serial != 5:
            out.append(Disc('canary.changed', repr((c.member, c.body, c.serial))))
    except Exception as e:
        out.append(Disc('canary.raises', exc_detail(e)))
    return out


def _valid_bytes(case, marks=None):
    msg = case['msg']
    f = {R.FIELD_CODE[k]: v for k, v in msg['fields'].items()}
    flags = (1 if msg.get('no_reply') else 0) | (2 if msg.get('no_auto') else 0)
    return R.encode_message(msg['type'], msg['serial'], f, msg['sig'], msg['trees'], case['little'], flags,
                            marks=marks)


def hostile_bytes(case):
    k = case['kind']
    if k == 'raw':
        return bytes.fromhex(case['hex'])
    if k == 'hostile_sig':
        body = bytes.fromhex(case['body'])
        if case['where'] == 'header':
            return R.encode_message(case['mtype'], 3, case['fields'], little=case['little'],
                                    extra_fields=[(8, 'g', case['hsig'])], raw_body=body)
        vb = bytes([len(case['hsig'])]) + case['hsig'].encode('ascii') + b'\0' + body
        return R.encode_message(case['mtype'], 3, case['fields'], little=case['little'],
                                extra_fields=[(8, 'g', 'v')], raw_body=vb)
    marks = []
    valid = _valid_bytes(case, marks)
    if k == 'mutate':
        b = bytearray(valid)
        for pos, op, val in case['muts']:
            i = pos % len(b)
            if op == 'flip':
                b[i] ^= 1 << (val % 8)
            else:
                b[i] = {'00': 0, 'ff': 0xff, '7f': 0x7f, '80': 0x80, 'rnd': val}[op]
        return bytes(b)
    if k == 'lie':
        b = bytearray(valid)
        pos, width, kind = marks[case['which'] % len(marks)]
        e = '<' if case['little'] else '>'
        cur = b[pos] if width == 1 else struct.unpack_from(e + 'I', b, pos)[0]
        rest = len(b) - pos - width
        new = {'zero': 0, 'minus1': cur - 1, 'plus1': cur + 1, 'big31': 2**31, 'max': 2**32 - 1,
               'rest': rest, 'rest-1': rest - 1, 'rest+1': rest + 1, 'plus8': cur + 8,
               'near-max': 2**32 - 1 - case.get('k', 0), 'near-half': 2**31 - 8 + case.get('k', 0),
               'rnd32': case.get('rnd', 0)}[case['lie']]
        if width == 1:
            b[pos] = new % 256
        else:
            struct.pack_into(e + 'I', b, pos, new % 2**32)
        return bytes(b)
    raise ValueError(k)


def run_case(case):
    if case['kind'] == 'truncate':
        valid = _valid_bytes(case)
        found = {}
        inner = 0
        for n in range(len(valid)):
            inner += 1
            for d in _attack(valid[:n]):
                found.setdefault(d.key, d)
        return list(found.values()), inner
    data = hostile_bytes(case)
    sig = None
    if case['kind'] == 'hostile_sig':
        sig = case['hsig'] if case['where'] == 'header' else 'v'
        body = bytes.fromhex(case['body'])
        if case['where'] != 'header':
            body = bytes([len(case['hsig'])]) + case['hsig'].encode('ascii') + b'\0' + body
        out = _attack(data)
        # the body alone through unmarshal
        from txdbus import marshal as M
        # for a direct unmarshal call the signature is part of the hostile input: its length counts
        n_in = len(body) + len(sig)
        m = B.Meter(LINES_BASE + LINES_PER_BYTE * n_in)
        st_, v = m.run(M.unmarshal, sig, body, 0, case['little'], [])
        out += _judge('unmarshal', st_, v, m, n_in, lambda r: _result_nodes(r[1]),
                      'sig=%r body=%s' % (sig, body.hex()[:300]))
        return out
    return _attack(data, sig)


def classify(case):
    labels = [case['kind']]
    if case['kind'] == 'truncate':
        return True, labels
    data = hostile_bytes(case)
    if case['kind'] == 'hostile_sig':
        labels.append(case['where'])
        if case['hsig'] in ('a()', 'a{}', 'a(()())', 'aa()', 'a(a())', 'a{}a{}'):
            labels.append('zero_size_element')
        return len(data) >= 16, labels
    if case['kind'] == 'raw':
        return len(data) >= 16, labels
    valid = _valid_bytes(case)
    if case['kind'] == 'lie':
        labels.append('lie_' + case['lie'])
    return data != valid and len(data) >= 16, labels


@st.composite
def hostile_case(draw, tier):
    kind = draw(st.sampled_from(['mutate', 'mutate', 'lie', 'lie', 'hostile_sig', 'hostile_sig', 'raw']))
    little = draw(st.booleans())
    if kind == 'raw':
        head = draw(st.sampled_from([b'l\x01\x00\x01', b'B\x02\x00\x01', b'l\x04\x01\x01', b'']))
        return {'kind': 'raw', 'hex': (head + draw(st.binary(max_size=120))).hex()}
    if kind == 'hostile_sig':
        mtype = draw(st.sampled_from([1, 2, 3, 4]))
        fields = {1: {1: '/a', 3: 'M'}, 2: {5: 7}, 3: {4: 'a.b', 5: 7}, 4: {1: '/a', 2: 'a.b', 3: 'S'}}[mtype]
        hs = draw(st.one_of(st.sampled_from(HOSTILE_SIGS),
                            st.text(alphabet='a(){}yisvhb', min_size=1, max_size=40)))
        body = draw(st.one_of(
            st.binary(max_size=64),
            st.integers(0, 2**32 - 1).map(lambda n: struct.pack('<I' if little else '>I', n) + b'\0' * 12),
            st.sampled_from([1, 4, 8, 64, 2**26, 2**31, 2**32 - 1]).map(
                lambda n: struct.pack('<I' if little else '>I', n) + b'\0' * 28)))
        return {'kind': 'hostile_sig', 'where': draw(st.sampled_from(['header', 'variant'])), 'mtype': mtype,
                'fields': {str(k): v for k, v in fields.items()}, 'hsig': hs, 'body': body.hex(), 'little': little}
    msg = draw(S.message(body_depth=2))
    case = {'kind': kind, 'msg': msg, 'little': little}
    if kind == 'mutate':
        case['muts'] = [[draw(st.integers(0, 4000)), draw(st.sampled_from(['flip', '00', 'ff', '7f', '80', 'rnd'])),
                         draw(st.integers(0, 255))] for _ in range(draw(st.integers(1, 3)))]
    else:
        case['which'] = draw(st.integers(0, 200))
        case['lie'] = draw(st.sampled_from(['zero', 'minus1', 'plus1', 'big31', 'max', 'rest', 'rest-1', 'rest+1',
                                            'plus8', 'near-max', 'near-max', 'near-half', 'rnd32']))
        case['k'] = draw(st.integers(0, 16))
        case['rnd'] = draw(st.integers(0, 2**32 - 1))
    return case


def enum_length_sweep(tier):
    """Every length field of a few fixed messages rewritten to each value of the windows
    [2^32-17, 2^32-1] and [2^31-8, 2^31+8] (signed/unsigned confusions live there)."""
    msgs = [
        {'type': 1, 'fields': {'path': '/a/b', 'member': 'M', 'interface': 'a.b', 'destination': 'c.d'}, 'sig': 'asa{sv}s',
         'trees': [['x', 'yz'], [['k', ['s', 'v']]], 'tail'], 'pres': [], 'no_reply': False, 'no_auto': False, 'serial': 5},
        {'type': 4, 'fields': {'path': '/', 'member': 'S', 'interface': 'a.b'}, 'sig': 'a(so)ay',
         'trees': [[['p', '/q']], [1, 2, 3]], 'pres': [], 'no_reply': False, 'no_auto': False, 'serial': 6},
    ]
    for mi, msg in enumerate(msgs):
        for little in (True, False):
            marks = []
            _valid_bytes({'msg': msg, 'little': little}, marks)
            for which in range(len(marks)):
                for k in range(0, 17):
                    yield {'kind': 'lie', 'msg': msg, 'little': little, 'which': which, 'lie': 'near-max', 'k': k}
                    yield {'kind': 'lie', 'msg': msg, 'little': little, 'which': which, 'lie': 'near-half', 'k': k}


FD_COUNTS = [1, 3, 255, 2**16, 2**20, 2**22 + 1, 2**24, 2**31 - 1, 2**31, 2**32 - 1]


def enum_fd_count(tier):
    """A well-formed message whose UNIX_FDS header claims a number of descriptors that never arrived: the claim is four
    bytes of input and must not buy more work than that."""
    bodies = [('', []), ('s', ['x']), ('hi', [0, 7]), ('ahs', [[0, 1, 2], 'y']), ('a{sv}', [[['k', ['h', 5]]]])]
    for mtype in (1, 2, 3, 4):
        fields = {1: {1: '/a', 3: 'M'}, 2: {5: 7}, 3: {4: 'a.b', 5: 7}, 4: {1: '/a', 2: 'a.b', 3: 'S'}}[mtype]
        for sig, trees in bodies:
            for n in FD_COUNTS:
                for little in (True, False):
                    f = dict(fields)
                    f[9] = n
                    raw = R.encode_message(mtype, 3, f, sig, trees, little=little, fds=[])
                    yield {'kind': 'raw', 'hex': raw.hex(), 'fd_count': n}


def enum_deep(tier):
    """Well-formed but deeply nested bodies (arrays in structs in arrays ..., one element per level, up to the nesting
    limit), with innermost element types that contain an empty struct / dict entry (which the library accepts) or not:
    decoding work must grow with the bytes, not with 2^depth."""
    from txdbus import marshal as M
    for k in (4, 10, 16, 22, 28):
        for inner, leaf in (('y()', (1, ())), ('y', (1,)), ('()y', ((), 1)), ('ys', (1, 'x'))):
            sig = 'a(' * k + inner + ')' * k
            v = leaf
            for _ in range(k):
                v = ([v],)
            for little in (True, False):
                try:
                    n, chunks = M.marshal(sig, [v[0]], 0, little)      # the library itself writes the (valid) body
                except Exception:
                    continue
                body = b''.join(chunks)
                raw = R.encode_message(1, 3, {1: '/a', 3: 'M'}, little=little, extra_fields=[(8, 'g', sig)], raw_body=body)
                yield {'kind': 'raw', 'hex': raw.hex(), 'depth': k}
    # a SIGNATURE header field that is not of type SIGNATURE (sent as a plain STRING it escapes the 255-character limit of
    # its type): long signatures whose every element costs work proportional to the signature, over a consistent body
    for k in (200, 1000, 3000):
        shapes = {
            'a(y()...)': ('a(y' + '()' * k + ')', (8 * k).to_bytes(4, 'little') + b'\0' * 4 + (b'\x01' + b'\0' * 7) * k),
            'ay*k': ('ay' * k, b''.join(b'\0\0\0\0' for _ in range(k))),
            'y*k': ('y' * (4 * k), b'\x07' * (4 * k)),
        }
        for name, (sig, body) in sorted(shapes.items()):
            for ftype in ('s', 'o'):
                raw = R.encode_message(1, 3, {1: '/a', 3: 'M'}, little=True, extra_fields=[(8, ftype, sig)], raw_body=body)
                yield {'kind': 'raw', 'hex': raw.hex(), 'depth': k}
    # chains of variants whose signatures hold MORE than one complete type (the specification forbids it, no encoder
    # writes it, a lenient decoder may tolerate it): consistent all the way down, byte-aligned so that nothing needs padding
    for k in (4, 10, 16, 22, 28, 40):
        for shape in ('vy', 'yv', 'vyy', 'vv'):
            body = b'\x01y\x00\x05'
            for _ in range(k):
                if shape == 'vy':
                    body = b'\x02vy\x00' + body + b'\x07'
                elif shape == 'yv':
                    body = b'\x02yv\x00\x07' + body
                elif shape == 'vyy':
                    body = b'\x03vyy\x00' + body + b'\x07\x08'
                else:
                    body = b'\x02vv\x00' + body + b'\x01y\x00\x09'
                if len(body) > 4000:
                    break
            for little in (True, False):
                raw = R.encode_message(1, 3, {1: '/a', 3: 'M'}, little=little, extra_fields=[(8, 'g', 'v')], raw_body=body)
                yield {'kind': 'raw', 'hex': raw.hex(), 'depth': k}


def _fix_fields(case):
    if case['kind'] == 'hostile_sig':
        case = dict(case)
        case['fields'] = {int(k): v for k, v in case['fields'].items()}
    return case


def run(case):
    return run_case(_fix_fields(case))


def classify_(case):
    return classify(_fix_fields(case))


@st.composite
def truncate_case(draw, tier):
    for _ in range(10):
        msg = draw(S.message(body_depth=2))
        case = {'kind': 'truncate', 'msg': msg, 'little': draw(st.booleans())}
        if len(_valid_bytes(case)) <= 300:
            return case
    msg['sig'], msg['trees'] = '', []
    return {'kind': 'truncate', 'msg': msg, 'little': True}


def enum_overlap(tier):
    """Sibling values that would overlap: an outer array of F eight-byte frames [inner length][element length], the inner
    container claiming fewer bytes than its element then takes (0, 1, 4, 5), the element claiming more than the message
    holds, and the outer length set so that stepping by declared extents lands on its end.  A decoder has to notice that
    an element ran past its container (or the data); one that trusts the declared extent decodes the rest of the message
    again from every frame."""
    for F in ((64, 1000) if tier == 'quick' else (64, 1000, 3000)):
        for inner in ('as', 'ao', 'aay', 'ag', '(s)'):
            for claim in (0, 1, 4, 5):
                for over in (0x7f7f7f7f, 8 * F + 16, 0x2f2f2f2f):
                    for outer in (8 * F - 3, 8 * F - 4 + claim, 8 * F):
                        for little in (True, False):
                            e = '<' if little else '>'
                            if inner == 'ag':
                                frame = struct.pack(e + 'IBBBB', claim, 0x7f, 0x79, 0x79, 0x79)
                            elif inner == '(s)':
                                frame = struct.pack(e + 'II', over, 0x79797979)
                            else:
                                frame = struct.pack(e + 'II', claim, over)
                            body = struct.pack(e + 'I', outer) + (b'' if inner != '(s)' else b'\0' * 4) + frame * F
                            yield {'kind': 'hostile_sig', 'where': 'header', 'mtype': 2, 'fields': {'5': 7},
                                   'hsig': 'a' + inner, 'body': body.hex(), 'little': little}


def enum_hostile(tier):
    """Every listed hostile signature x both placements x a few bodies, deterministically."""
    for hs in HOSTILE_SIGS:
        for where in ('header', 'variant'):
            for n in (0, 1, 8, 2**32 - 1):
                for little in (True, False):
                    body = struct.pack('<I' if little else '>I', n) + b'\0' * 12
                    yield {'kind': 'hostile_sig', 'where': where, 'mtype': 2, 'fields': {'5': 7},
                           'hsig': hs, 'body': body.hex(), 'little': little}


# --------------------------------------------------------------------------
# coverage-guided campaign (thorough tier only)

def enum_atheris(tier):
    if tier != 'thorough':
        return
    for i, corpus in enumerate(['empty', 'seeded', 'empty', 'seeded', 'seeded', 'empty', 'seeded', 'seeded']):
        yield {'kind': 'atheris', 'corpus': corpus, 'runs': 150000, 'slot': i}


def run_atheris(case):
    import glob
    import shutil
    import subprocess
    import sys
    import tempfile
    from ..core import VERIF_DIR
    seed = int(os.environ.get('VERIF_SEED', '1') or 1) * 100 + case['slot']
    if not os.path.isdir(os.path.join(VERIF_DIR, '.deps', 'atheris')):
        return [], 0          # tooling not installed (setup_cmd installs it): nothing explored, nothing claimed
    work = tempfile.mkdtemp(prefix='verif-c05-fuzz-')
    try:
        corpus = os.path.join(work, 'corpus')
        os.makedirs(corpus)
        if case['corpus'] == 'seeded':
            samples = [R.encode_message(1, 7, {1: '/a/b', 2: 'a.b', 3: 'M', 6: 'c.d'}, 'sa{sv}i', ['x', [['k', ['u', 5]]], -1]),
                       R.encode_message(2, 8, {5: 7}, 'a(yx)v', [[[1, 2]], ['as', ['p']]], little=False),
                       R.encode_message(4, 9, {1: '/', 2: 'a.b', 3: 'S'}),
                       R.encode_message(3, 10, {4: 'a.b.E', 5: 3}, 's', ['boom'])]
            for i, b in enumerate(samples):
                with open(os.path.join(corpus, 'seed%d' % i), 'wb') as f:
                    f.write(b)
        art = os.path.join(work, 'art') + os.sep
        os.makedirs(art)
        env = dict(os.environ)
        cmd = [sys.executable, os.path.join(VERIF_DIR, 'fuzz', 'c05_atheris.py'), corpus, '-runs=%d' % case['runs'],
               '-seed=%d' % seed, '-max_len=512', '-artifact_prefix=' + art, '-print_final_stats=1']
        pr = subprocess.run(cmd, env=env, capture_output=True, timeout=3600)
        text = (pr.stderr or b'').decode('utf-8', 'replace')
        execs = 0
        for ln in text.splitlines():
            if 'stat::number_of_executed_units' in ln:
                execs = int(ln.split()[-1])
        out = []
        for crash in sorted(glob.glob(art + 'crash-*') + glob.glob(art + 'timeout-*') + glob.glob(art + 'oom-*')):
            data = open(crash, 'rb').read()
            discs = _attack(data)      # the check's own oracle decides
            for d in discs:
                d.detail = 'found by atheris (seed %d, %s corpus): %s' % (seed, case['corpus'], d.detail)
            out += discs
        if pr.returncode not in (0,) and not out and 'StepBudgetExceeded' not in text and 'ERROR: libFuzzer' in text:
            raise RuntimeError('atheris harness failure: ' + text[-800:])
        return out, execs
    finally:
        shutil.rmtree(work, ignore_errors=True)


def run_any(case):
    if case.get('kind') == 'atheris':
        return run_atheris(case)
    return run(case)


def classify_any(case):
    if case.get('kind') == 'atheris':
        return True, ['atheris_' + case['corpus']]
    return classify_(case)


# --------------------------------------------------------------------------
# work done inside C primitives: bytes copied by slicing (invisible to a line budget)

class _CountingBytes(bytes):
    """bytes whose slices are counted (and stay counting): every slice copies its result."""
    copied = [0]

    def __getitem__(self, k):
        r = bytes.__getitem__(self, k)
        if isinstance(k, slice):
            _CountingBytes.copied[0] += len(r)
            return _CountingBytes(r)
        return r


COPY_SHAPES = {
    # name -> (signature, function n -> trees): many small containers inside one message, all of it valid
    'aay-empty': ('aay', lambda n: [[[] for _ in range(n)]]),
    'aay-one': ('aay', lambda n: [[[7] for _ in range(n)]]),
    'a(ay)': ('a(ay)', lambda n: [[[[]] for _ in range(n)]]),
    'av-of-ay': ('av', lambda n: [[['ay', [1, 2]] for _ in range(n)]]),
    'a{uas}': ('a{uas}', lambda n: [[[i, ['k']] for i in range(n)]]),
    'as': ('as', lambda n: [['s%d' % i for i in range(n)]]),
    'aas': ('aas', lambda n: [[['x'] for _ in range(n)]]),
}


def enum_copy_work(tier):
    for name in sorted(COPY_SHAPES):
        for n in ((300, 3000) if tier == 'quick' else (300, 3000, 30000)):
            for little in (True, False):
                yield {'shape': name, 'n': n, 'little': little}


def run_copy_work(case):
    from txdbus import message as MSG
    sig, mk = COPY_SHAPES[case['shape']]
    trees = mk(case['n'])
    raw = R.encode_message(4, 5, {1: '/o', 2: 'a.b', 3: 'S'}, sig, trees, little=case['little'])
    _CountingBytes.copied[0] = 0
    try:
        m = MSG.parseMessage(_CountingBytes(raw), [])
    except Exception as e:
        return [Disc(exc_key(e, 'copy.parse'), exc_detail(e))]
    copied = _CountingBytes.copied[0]
    out = []
    if not R.nf_equal(m.body, S.normal_forms(sig, trees)):
        out.append(Disc('copy.body', 'shape %s n=%d decoded wrongly' % (case['shape'], case['n'])))
    # the fixed header, the header fields, the body and every string are each sliced out once: a few times the length
    if copied > 8 * len(raw) + 4096:
        out.append(Disc('copy.superlinear', 'shape %s n=%d: a %d-byte message made the decoder copy %d bytes (%.0fx)' % (
            case['shape'], case['n'], len(raw), copied, copied / len(raw))))
    return out


def classify_copy_work(case):
    return True, [case['shape'], 'n=%d' % case['n']]


# --------------------------------------------------------------------------
# work done inside C primitives, second kind: time spent inside one call (a backtracking regular expression)

class _TooSlow(BaseException):
    pass


REPEAT_SHAPES = {
    # name -> function k -> text: many repetitions of a legal unit, then one illegal character (what makes a backtracking
    # matcher try every grouping of the units before it gives up)
    'path-bad-end': lambda k: '/ab' * k + '!',
    'path-bad-mid': lambda k: '/ab' * k + '-' + '/ab' * 3,
    'path-double-slash-end': lambda k: '/a' * k + '//',
    'name-bad-end': lambda k: 'ab' + '.ab' * k + '!',
    'name-dot-end': lambda k: 'a' + '.a' * k + '.',
    'member-bad-end': lambda k: 'ab' * k + '!',
}
REPEAT_PLACES = ['path-field', 'interface-field', 'member-field', 'destination-field', 'body-o', 'body-ao', 'body-v-o', 'body-g']


def enum_repeat(tier):
    for shape in sorted(REPEAT_SHAPES):
        for place in REPEAT_PLACES:
            for k in (24, 40, 80):
                yield {'shape': shape, 'place': place, 'k': k}
    # a big dictionary in which ONE key occurs twice (the specification calls that corrupt-but-tolerable; no encoder writes
    # it): whatever is done about the repeat must not cost a pass over the dictionary per entry
    for place in ('a{uu}', 'a{su}'):
        for where in ('first', 'last'):
            yield {'shape': 'dup-key', 'place': place, 'k': 100000, 'where': where}


def run_repeat(case):
    import signal
    from txdbus import message as MSG
    fields = {1: '/o', 2: 'a.b', 3: 'S'}
    sig, trees = '', []
    place = case['place']
    limit = 20.0
    raw = None
    if case['shape'] == 'dup-key':
        n = case['k']
        limit = 30.0        # this tree: 0.2 s for the 800 KB message; a pass per entry: minutes
        if place == 'a{uu}':
            ent = [struct.pack('<II', i, i) for i in range(n)]
            ent[0 if case['where'] == 'first' else n - 1] = struct.pack('<II', n // 2, 9)
        else:
            ent = [struct.pack('<I', 5) + (b'%05d' % (i % 100000)) + b'\0\0\0' + struct.pack('<I', i) for i in range(n)]
            ent[0 if case['where'] == 'first' else n - 1] = struct.pack('<I', 5) + (b'%05d' % (n // 2)) + b'\0\0\0' + struct.pack('<I', 9)
        entries = b''.join(ent)
        body = struct.pack('<I', len(entries)) + b'\0' * 4 + entries
        raw = R.encode_message(4, 5, fields, extra_fields=[(8, 'g', place)], raw_body=body)
        text = ''
    else:
        text = REPEAT_SHAPES[case['shape']](case['k'])[:250]
    if raw is not None:
        pass
    elif place == 'path-field':
        fields[1] = text
    elif place == 'interface-field':
        fields[2] = text
    elif place == 'member-field':
        fields[3] = text
    elif place == 'destination-field':
        fields[6] = text
    elif place == 'body-o':
        sig, trees = 'o', [text]
    elif place == 'body-ao':
        sig, trees = 'ao', [['/ok', text]]
    elif place == 'body-v-o':
        sig, trees = 'v', [['o', text]]
    else:
        sig, trees = 'g', [('a' * case['k'])[:200] + '!']
    if raw is None:
        raw = R.encode_message(4, 5, fields, sig, trees)     # the reference ENCODER does not judge names: hostile on purpose

    def on_alarm(signum, frame):
        raise _TooSlow()
    old = signal.signal(signal.SIGALRM, on_alarm)
    signal.setitimer(signal.ITIMER_REAL, limit)
    try:
        try:
            MSG.parseMessage(raw, [])
        except _TooSlow:
            # the one place where a clock decides: a %d-byte message that is not answered within 20 s (this tree: well under
            # a millisecond, five orders of magnitude away) - a budget on interpreter lines cannot see time spent inside re
            return [Disc('repeat.no-answer-within-%ds' % limit, 'a %d-byte message (%s at %s, %d repetitions) was still being decoded '
                                                       'after %d seconds' % (len(raw), case['shape'], place, case['k'], limit))]
        except Exception:
            pass
    finally:
        signal.setitimer(signal.ITIMER_REAL, 0)
        signal.signal(signal.SIGALRM, old)
    return []


def classify_repeat(case):
    return True, [case['shape'], case['place']]


# --------------------------------------------------------------------------
# work adds up: header fields and body are each decoded once

def enum_additive(tier):
    """A message with F unknown header fields AND a sizeable body must cost about what the fields alone plus the body alone
    cost: neither part is decoded again for every element of the other.  The SIGNATURE field stands first, in the middle
    or last among the fields (a peer's encoder may order them as it likes)."""
    for F in ((60, 400) if tier == 'quick' else (60, 400, 1500)):
        for body in ('ay', 'as', 'a(ii)'):
            for sigpos in ('first', 'middle', 'last'):
                for little in (True, False):
                    yield {'F': F, 'body': body, 'sigpos': sigpos, 'little': little}


def _additive_message(case, with_fields, with_body):
    F = case['F'] if with_fields else 0
    fields = {1: '/o', 3: 'M'}
    extra = [(0x40 + (i % 100), 'u', i) for i in range(F)]
    sig, trees = '', []
    if with_body:
        sig = case['body']
        trees = [{'ay': list(range(250)) * 8, 'as': ['s%d' % i for i in range(250)],
                  'a(ii)': [[i, -i] for i in range(250)]}[sig]]
    n = len(fields) + (1 if sig else 0) + F
    order = None
    if sig:
        spos = len(fields)                    # index of the signature field in the default order (codes 1, 3, 8, extras)
        rest = [i for i in range(n) if i != spos]
        at = {'first': 0, 'middle': len(rest) // 2, 'last': len(rest)}[case['sigpos']]
        order = rest[:at] + [spos] + rest[at:]
    return R.encode_message(1, 9, fields, sig, trees, case['little'], 0, order, extra)


def run_additive(case):
    from txdbus import message as MSG
    out = []
    cost = {}
    for name, wf, wb in (('both', True, True), ('fields', True, False), ('body', False, True)):
        raw = _additive_message(case, wf, wb)
        m = B.Meter(10 ** 9)
        st_, v = m.run(MSG.parseMessage, raw, [])
        if st_ != 'ok':
            return [Disc('additive.valid-message-refused:%s' % name, '%s: %r' % (st_, v))]
        cost[name] = m.count
    if cost['both'] > 3 * (cost['fields'] + cost['body']) + 5000:
        out.append(Disc('additive.fields-times-body', '%d header fields and a %s body (signature field %s): %d traced lines, the '
                        'fields alone %d, the body alone %d' % (case['F'], case['body'], case['sigpos'], cost['both'],
                                                                cost['fields'], cost['body'])))
    return out


SUBCHECKS = [
    Subcheck('hostile', run, classify_, strategy=lambda tier: hostile_case(tier),
             n={'quick': 700, 'thorough': 8000}),
    Subcheck('truncate', run, classify_, strategy=lambda tier: truncate_case(tier),
             n={'quick': 12, 'thorough': 150},
             exhaustive_note='per generated message (<=300 bytes): every proper prefix'),
    Subcheck('hostile_list', run, classify_, enumerate=enum_hostile, shards={'quick': 4, 'thorough': 4},
             exhaustive_note='%d listed hostile signatures x 2 placements x 4 declared lengths x 2 byte orders'
                             % len(HOSTILE_SIGS)),
    Subcheck('overlap', run, classify_, enumerate=enum_overlap, shards={'quick': 8, 'thorough': 16},
             exhaustive_note='frames x inner element type x claimed inner length x element over-claim x outer length x byte order'),
    Subcheck('additive', run_additive, lambda c: (True, ['F=%d' % c['F'], c['body'], 'signature_' + c['sigpos']]),
             enumerate=enum_additive, shards={'quick': 4, 'thorough': 8},
             exhaustive_note='unknown header fields (60 / 400 / 1500) x body kind x position of the SIGNATURE field x byte order'),
    Subcheck('length_sweep', run, classify_, enumerate=enum_length_sweep, shards={'quick': 4, 'thorough': 4},
             exhaustive_note='every length field of 2 fixed messages x 2 byte orders x 34 values around 2^32 and 2^31'),
    Subcheck('deep_valid', run, classify_, enumerate=enum_deep, shards={'quick': 4, 'thorough': 4},
             exhaustive_note='valid bodies nested 4..28 levels deep (array of struct of array ...) x 4 innermost element types '
                             '(with and without an empty struct) x 2 byte orders, judged by the step budget'),
    Subcheck('fd_count', run, classify_, enumerate=enum_fd_count, shards={'quick': 4, 'thorough': 4},
             exhaustive_note='4 message types x 5 bodies (with and without h arguments) x 10 claimed descriptor counts up '
                             'to 2^32-1 x 2 byte orders'),
    Subcheck('copy_work', run_copy_work, classify_copy_work, enumerate=enum_copy_work, shards={'quick': 4, 'thorough': 4},
             exhaustive_note='valid messages holding 300 / 3000 (/ 30000) small containers of 7 shapes, decoded from a bytes '
                             'subclass that counts what slicing copies: at most 8x the message length'),
    Subcheck('repeat', run_repeat, classify_repeat, enumerate=enum_repeat, shards={'quick': 4, 'thorough': 4},
             exhaustive_note='6 texts made of 24 / 40 / 80 repetitions of a legal unit plus one illegal character x 8 places '
                             '(name-carrying header fields, o / ao / v / g in the body): answered within 20 s'),
    Subcheck('atheris', run_any, classify_any, enumerate=enum_atheris, shards={'quick': 1, 'thorough': 8}),
]
