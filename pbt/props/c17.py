"""C17 -- remote property access honours type and access mode (DESIGN.md section 3, C17)."""
from hypothesis import strategies as st

from .. import refcodec as R
from .. import strategies as S
from ..core import Disc, Subcheck, exc_detail, exc_key

PROPERTY_ID = 'C17'
LEVEL = 'exploration'
RULE = ('In every second history the class is inspected (every attribute read through the class) before instances exist; in every fourth the object is exported over a predecessor. generated classes: 1-2 interfaces with 1-4 properties each over every basic type with a wrapper class, s, d and '
        'a few containers x 4 (readable, writeable) combinations x 3 change-notification modes, bound by DBusProperty '
        'with or without an explicit interface, the same property name on two interfaces, properties and interfaces '
        'contributed by a base class and a subclass (same and different interface). histories of up to 15 operations on '
        'the exported object: local assignment, remote Get / Set / GetAll as parsed messages with the interface argument '
        'right, empty, another declared one or unknown and the property name right or wrong. oracle (store model): Get '
        'returns the last value assigned locally or by a successful Set, as a variant of exactly the declared type when '
        'that type is basic (strict reference decode of the raw reply), and is an error iff the property / interface is '
        'unknown or the property write-only; Set changes the value iff writable, else error and unchanged; GetAll(i) '
        'holds exactly the readable properties of i over the whole class hierarchy, GetAll("") their union; one '
        'PropertiesChanged(interface, {name: value}, []) per assignment when the mode is true, none when false. '
        'Non-trivial = a Set followed by a Get, or a colliding property name, or an inherited property; distinct = '
        'case JSON. A third of the descriptors are bound to their class after the class statement (setattr). Prologues: the object '
        'was exported on another connection first, which is then withdrawn or lost; exports through an adapter.')
ASSUMPTIONS = ['properties are assigned before export in their natural Python type - after construction, or (a third of the '
               'cases) by a subclass constructor before DBusObject.__init__ runs; later assignments also use values wrapped '
               'in the declared or in another fitting txdbus integer type',
               '"the new value" in PropertiesChanged is read as a D-Bus value: for a basic declared type its variant must '
               'have that type (the reading the statement spells out for Get)',
               'mode "invalidates": 0 or 1 signal accepted; GetAll(unknown interface): error or {} accepted',
               'a name declared on two interfaces is bound with explicit interfaces; Get("", name) may answer either']

PROPS_IF = 'org.freedesktop.DBus.Properties'
TYPES = ['y', 'b', 'n', 'q', 'i', 'u', 'x', 't', 'g', 'o', 's', 'd', 'as', 'a{ss}', '(is)', 'ay']
BASIC = set('ybnqiuxtgosd')


class _Conn:
    def __init__(self):
        self.sent = []

    def sendMessage(self, m):
        self.sent.append(m)


def _natural(sig, tree):
    """The value in its natural Python type (no wrapper classes)."""
    v = R.normal_form(sig, tree)
    if sig == '(is)':
        return tuple(v)
    if sig == 'ay':
        return bytearray(v)
    return v


_INT_RANGES = [('y', 0, 255), ('n', -2**15, 2**15 - 1), ('q', 0, 2**16 - 1), ('i', -2**31, 2**31 - 1),
               ('u', 0, 2**32 - 1), ('x', -2**63, 2**63 - 1), ('t', 0, 2**64 - 1)]


def _presented(sig, tree, mode):
    """The value as user code may hand it over: natural Python (0), wrapped in the declared txdbus type (1), or - for
    integers - wrapped in ANOTHER txdbus integer type that can hold it (2), e.g. UInt16(7) assigned to an 'i' property."""
    from txdbus import marshal as M
    v = _natural(sig, tree)
    if mode == 0 or sig not in M.variantClassMap or isinstance(v, bool):
        return v
    if mode == 1 or sig not in 'ynqiuxt':
        return M.variantClassMap[sig](v)
    fits = [c for c, lo, hi in _INT_RANGES if c != sig and lo <= v <= hi]
    if not fits:
        return v
    return M.variantClassMap[fits[abs(v) % len(fits)]](v)


def _build(case):
    from txdbus import interface as I
    from txdbus import objects as O
    ifs = {}
    for spec in case['ifaces']:
        props = []
        for p in spec['props']:
            if p['r'] and not p['w'] and p['emits'] == 'true' and len(p['name']) % 2:
                props.append(I.Property(p['name'], p['sig']))      # the documented defaults: readable, not writeable, emits
            else:
                props.append(I.Property(p['name'], p['sig'], p['r'], p['w'],
                                        {'true': True, 'false': False}.get(p['emits'], 'invalidates')))
        ifs[spec['name']] = I.DBusInterface(spec['name'], *props, noRegister=True)
    base_ns = {'dbusInterfaces': [ifs[s['name']] for s in case['ifaces'] if s['level'] == 0]}
    sub_ns = {}
    subifs = [ifs[s['name']] for s in case['ifaces'] if s['level'] == 1]
    if subifs:
        sub_ns['dbusInterfaces'] = subifs
    late = []
    for i, a in enumerate(case['attrs']):
        ns = sub_ns if a['level'] == 1 else base_ns
        d = O.DBusProperty(a['pname'], a['iface'] if a['explicit'] else None)
        if (i + len(case['attrs'])) % 3 == 2:
            late.append((a['level'], a['attr'], d))     # bound to the class after the class statement (a property table)
        else:
            ns[a['attr']] = d
    if len(case['attrs']) % 2:
        sub_ns['__len__'] = lambda self: 0      # the exported object may be false in a boolean context
    Base = type('PBase', (O.DBusObject,), base_ns)
    Sub = type('PSub', (Base,), sub_ns)
    for level, attr, d in late:
        setattr(Sub if level == 1 else Base, attr, d)
    return Sub


def _pspec(case, iface, pname):
    for s in case['ifaces']:
        if s['name'] == iface:
            for p in s['props']:
                if p['name'] == pname:
                    return p
    return None


def _send(MSG, h, conn, path, member, sig, trees, serial):
    raw = R.encode_variant(serial, 1, serial, {1: path, 2: PROPS_IF, 3: member, 7: ':1.8', 6: ':1.2'}, sig, trees)
    del conn.sent[:]
    h.handleMethodCallMessage(MSG.parseMessage(raw, []))
    out = list(conn.sent)
    del conn.sent[:]
    return out


def _split(msgs):
    """-> (replies, PropertiesChanged signals decoded)"""
    replies, sigs = [], []
    for m in msgs:
        d = R.decode_message(m.rawMessage)
        if d['type'] == 4:
            if d['fields'].get(3) == 'PropertiesChanged':
                sigs.append(d)
        else:
            replies.append(d)
    return replies, sigs


def _check_signals(out, sigs, spec, iface, pname, value_nf, where):
    mode = spec['emits']
    n = len(sigs)
    if mode == 'true' and n != 1:
        out.append(Disc('changed.count:true', '%s: %d PropertiesChanged signals for %s.%s' % (where, n, iface, pname)))
    elif mode == 'false' and n != 0:
        out.append(Disc('changed.count:false', '%s: %d signals' % (where, n)))
    elif mode == 'invalidates' and n > 1:
        out.append(Disc('changed.count:invalidates', '%s: %d signals' % (where, n)))
    if mode == 'true' and n == 1:
        d = sigs[0]
        try:
            body = d['body']
            changed = {k: v for k, v in body[1]}
            ok = (body[0] == iface and list(changed) == [pname] and body[2] == []
                  and _loose_eq(R.normal_form(changed[pname][0], changed[pname][1]), value_nf))
        except Exception:
            ok = False
        if not ok:
            out.append(Disc('changed.content', '%s: expected (%r, {%r: %r}, []) got %r' % (where, iface, pname, value_nf, d['body'])))
        elif len(spec['sig']) == 1 and spec['sig'] != 'v' and changed[pname][0] != spec['sig']:
            # "the new value" is a D-Bus value: for a basic declared type it travels under that type, as in Get
            out.append(Disc('changed.variant-type:%s' % spec['sig'], '%s: %s.%s declared %r announced as %r' % (
                where, iface, pname, spec['sig'], changed[pname][0])))


def _loose_eq(a, b):
    """Python equality after the C01 normalisations (tuple/list, bytearray/list)."""
    def n(v):
        if isinstance(v, (tuple, list)):
            return [n(x) for x in v]
        if isinstance(v, bytearray):
            return list(v)
        if isinstance(v, dict):
            return {k: n(x) for k, x in v.items()}
        return v
    return n(a) == n(b)


def run_case(case):
    from txdbus import message as MSG
    from txdbus import objects as O
    out = []
    try:
        cls = _build(case)
    except Exception as e:
        return [Disc(exc_key(e, 'build.class'), exc_detail(e))]
    try:
        store = {}
        attrs = case['attrs']
        if len(case['ops']) % 2 == 0:
            # tooling looks at the class before any instance exists (inspect.getmembers, help(), autodoc, autospec): every
            # attribute is read through the class, whatever that yields or raises
            for name in dir(cls):
                try:
                    getattr(cls, name)
                except Exception:
                    pass
        if len(attrs) % 3 == 1:
            # a subclass whose constructor assigns its properties BEFORE it calls the base constructor (upstream supports
            # property access prior to object construction; cooperative multiple inheritance produces this order)
            inits = [(a['attr'], _natural(_pspec(case, a['iface'], a['pname'])['sig'], a['init'])) for a in attrs]

            def early_init(self, path, inits=inits):
                for attr, v in inits:
                    setattr(self, attr, v)
                O.DBusObject.__init__(self, path)
            cls = type('PEarly', (cls,), {'__init__': early_init})
            obj = cls('/props')
        else:
            obj = cls('/props')
            for a in attrs:      # assigned before export
                spec = _pspec(case, a['iface'], a['pname'])
                setattr(obj, a['attr'], _natural(spec['sig'], a['init']))
        for a in attrs:
            spec = _pspec(case, a['iface'], a['pname'])
            store[(a['iface'], a['pname'])] = R.normal_form(spec['sig'], a['init'])
        conn = _Conn()
        h = O.DBusObjectHandler(conn)
        if len(case['ops']) % 4 == 2:
            # fail-over: the object was exported on another connection first and is withdrawn there once it is up here;
            # from then on this connection is the one it lives on
            h0 = O.DBusObjectHandler(_Conn())
            h0.exportObject(obj)
            h.exportObject(obj)
            if len(case['attrs']) % 2:
                h0.unexportObject('/props')
            else:
                # ... or the old connection simply dies (make-before-break reconnect)
                from twisted.python.failure import Failure
                from twisted.internet.error import ConnectionLost
                h0.connectionLost(Failure(ConnectionLost('old connection gone')))
        elif len(case['ops']) % 4 == 1:
            from . import c10
            h.exportObject(c10._plain_for(O, obj))        # reaches IDBusObject through a registered adapter
        elif len(case['ops']) % 4 == 3:
            # the application rebuilt its object: a predecessor of the same class, holding other values, sits at the path
            # and is replaced by exporting the new one over it (no unexport in between); nobody touches the old one again
            old = type(obj)('/props')
            for a in attrs:
                spec = _pspec(case, a['iface'], a['pname'])
                setattr(old, a['attr'], {'s': 'old', 'i': -9, 'u': 9, 'y': 9, 'b': True}.get(
                    spec['sig'], _natural(spec['sig'], a['init'])))
            h.exportObject(old)
            h.exportObject(obj)
        else:
            h.exportObject(obj)
        # a sibling: another instance of the same class with values of its own, exported next to the first; whatever is
        # done to the first object must leave it alone (property state belongs to the instance)
        twin = type(obj)('/twin')
        twin_vals = {}
        for a in attrs:
            spec = _pspec(case, a['iface'], a['pname'])
            if spec['sig'] in ('s', 'i', 'u', 'y', 'b'):
                tv = {'s': 'twin', 'i': -7, 'u': 7, 'y': 7, 'b': True}[spec['sig']]
                setattr(twin, a['attr'], tv)
                twin_vals[a['attr']] = tv
            else:
                setattr(twin, a['attr'], _natural(spec['sig'], a['init']))
        h.exportObject(twin)
        del conn.sent[:]
        serial = 50
        names_count = {}
        for a in attrs:
            names_count[a['pname']] = names_count.get(a['pname'], 0) + 1
        all_ifaces = [s['name'] for s in case['ifaces']]
        for oi, op in enumerate(case['ops']):
            serial += 1
            where = 'op %d %s' % (oi, op[0])
            if op[0] == 'assign':
                a = attrs[op[1] % len(attrs)]
                spec = _pspec(case, a['iface'], a['pname'])
                del conn.sent[:]
                setattr(obj, a['attr'], _presented(spec['sig'], op[2], op[3] if len(op) > 3 else 0))
                nf = R.normal_form(spec['sig'], op[2])
                store[(a['iface'], a['pname'])] = nf
                _, sigs = _split(conn.sent)
                _check_signals(out, sigs, spec, a['iface'], a['pname'], nf, where)
                if _loose_eq(getattr(obj, a['attr']), nf) is False:
                    out.append(Disc('local.readback', '%s' % where))
            elif op[0] in ('get', 'set'):
                a = attrs[op[1] % len(attrs)]
                spec = _pspec(case, a['iface'], a['pname'])
                imode, nmode = op[2], op[3]
                iface_arg = {'right': a['iface'], 'empty': '', 'unknown': 'org.verif.Nope'}.get(imode)
                if imode == 'other':
                    others = [i for i in all_ifaces if i != a['iface']]
                    iface_arg = others[0] if others else 'org.verif.Nope'
                pname_arg = a['pname'] if nmode == 'right' else a['pname'] + 'X'
                # which declared property does (iface_arg, pname_arg) denote?
                targets = [(i, pname_arg) for i in all_ifaces if (iface_arg in ('', i)) and (i, pname_arg) in store]
                if op[0] == 'get':
                    msgs = _send(MSG, h, conn, '/props', 'Get', 'ss', [iface_arg, pname_arg], serial)
                    replies, sigs = _split(msgs)
                    if len(replies) != 1:
                        out.append(Disc('get.reply-count', '%s: %d' % (where, len(replies))))
                        break
                    d = replies[0]
                    readable = [t for t in targets if _pspec(case, *t)['r'] or not _pspec(case, *t)['w']]
                    if not targets or (len(targets) == 1 and not readable):
                        if d['type'] != 3:
                            out.append(Disc('get.should-fail:%s' % ('unknown' if not targets else 'write-only'),
                                            '%s: Get(%r, %r) answered %r' % (where, iface_arg, pname_arg, d['body'])))
                    elif len(targets) > 1 and len(readable) < len(targets):
                        pass    # ambiguous name, one of them write-only: either outcome admissible
                    else:
                        if d['type'] != 2 or d['body_sig'] != 'v':
                            out.append(Disc('get.should-succeed', '%s: Get(%r, %r) -> type %d %r' % (
                                where, iface_arg, pname_arg, d['type'], d['body'])))
                        else:
                            vsig, vtree = d['body'][0]
                            got = R.normal_form(vsig, vtree)
                            cands = [(t, store[t]) for t in targets]
                            hit = [t for t, v in cands if _loose_eq(got, v)]
                            if not hit:
                                out.append(Disc('get.value', '%s: Get(%r, %r) -> %r, stored %r' % (
                                    where, iface_arg, pname_arg, got, cands)))
                            else:
                                sigs_ok = [_pspec(case, *t)['sig'] for t in hit]
                                if all(sg in BASIC and vsig != sg and not (sg == 'd' and vsig == 'i') for sg in sigs_ok):
                                    out.append(Disc('get.variant-type:%s' % sigs_ok[0], '%s: declared %r, reply variant %r' % (
                                        where, sigs_ok, vsig)))
                else:
                    if len(targets) > 1:
                        continue      # Set through an ambiguous name: not generated / not judged
                    if targets and _pspec(case, *targets[0])['sig'] != spec['sig']:
                        continue      # the addressed property has another type than the drawn value: outside the claim
                    vtree = op[4]
                    msgs = _send(MSG, h, conn, '/props', 'Set', 'ssv', [iface_arg, pname_arg, [spec['sig'], vtree]], serial)
                    replies, sigs = _split(msgs)
                    if len(replies) != 1:
                        out.append(Disc('set.reply-count', '%s: %d' % (where, len(replies))))
                        break
                    d = replies[0]
                    writable = bool(targets) and _pspec(case, *targets[0])['w']
                    if writable:
                        if d['type'] != 2:
                            out.append(Disc('set.should-succeed', '%s: Set(%r, %r) -> %r' % (where, iface_arg, pname_arg, d['body'])))
                        else:
                            nf = R.normal_form(spec['sig'], vtree)
                            store[targets[0]] = nf
                            _check_signals(out, sigs, _pspec(case, *targets[0]), targets[0][0], targets[0][1], nf, where)
                    else:
                        if d['type'] != 3:
                            out.append(Disc('set.should-fail:%s' % ('unknown' if not targets else 'read-only'),
                                            '%s: Set(%r, %r) accepted' % (where, iface_arg, pname_arg)))
                        if sigs:
                            out.append(Disc('set.signal-on-failed-set', where))
                    # the local view agrees with the model
                    for b in attrs:
                        if not _loose_eq(getattr(obj, b['attr']), store[(b['iface'], b['pname'])]):
                            out.append(Disc('set.local-value', '%s: attribute %s is %r, model %r' % (
                                where, b['attr'], getattr(obj, b['attr']), store[(b['iface'], b['pname'])])))
                            break
            elif op[0] == 'getall':
                iface_arg = {'unknown': 'org.verif.Nope', 'empty': ''}.get(op[1])
                if iface_arg is None:
                    iface_arg = all_ifaces[op[2] % len(all_ifaces)]
                msgs = _send(MSG, h, conn, '/props', 'GetAll', 's', [iface_arg], serial)
                replies, sigs = _split(msgs)
                if len(replies) != 1:
                    out.append(Disc('getall.reply-count', '%s: %d' % (where, len(replies))))
                    break
                d = replies[0]
                if iface_arg == 'org.verif.Nope':
                    if d['type'] == 2 and d['body'] != [[]]:
                        out.append(Disc('getall.unknown-interface-has-properties', repr(d['body'])))
                    continue
                if d['type'] != 2 or d['body_sig'] != 'a{sv}':
                    out.append(Disc('getall.should-succeed', '%s: GetAll(%r) -> type %d %r' % (where, iface_arg, d['type'], d['body'])))
                    continue
                got = {k: R.normal_form(v[0], v[1]) for k, v in d['body'][0]}
                gsig = {k: v[0] for k, v in d['body'][0]}
                want = {}
                for (i, n_), v in store.items():
                    sp = _pspec(case, i, n_)
                    if iface_arg in ('', i) and (sp['r'] or not sp['w']):
                        want.setdefault(n_, []).append((v, sp['sig']))
                if set(got) != set(want):
                    out.append(Disc('getall.names:%s' % ('missing' if set(want) - set(got) else 'extra'),
                                    '%s: GetAll(%r) expected %r got %r' % (where, iface_arg, sorted(want), sorted(got))))
                else:
                    for k, v in got.items():
                        if not any(_loose_eq(v, w) for w, _ in want[k]):
                            out.append(Disc('getall.value', '%s: %s expected one of %r got %r' % (where, k, want[k], v)))
                        elif len(want[k]) == 1 and want[k][0][1] in BASIC and gsig[k] != want[k][0][1] and \
                                not (want[k][0][1] == 'd' and gsig[k] == 'i'):
                            out.append(Disc('getall.variant-type', '%s: %s declared %r got %r' % (where, k, want[k][0][1], gsig[k])))
            if out:
                break
        if not out:
            for attr, tv in twin_vals.items():
                if getattr(twin, attr) != tv:
                    out.append(Disc('twin.value-changed', 'another instance of the class had %s = %r, now %r' % (
                        attr, tv, getattr(twin, attr))))
                    break
    except Exception as e:
        out.append(Disc(exc_key(e, 'c17.exception'), exc_detail(e)))
    return out


def classify(case):
    labels = []
    names = [a['pname'] for a in case['attrs']]
    coll = len(names) != len(set(names))
    inh = any(a['level'] == 0 for a in case['attrs']) and any(a['level'] == 1 for a in case['attrs'])
    same_if_split = False
    byif = {}
    for a in case['attrs']:
        byif.setdefault(a['iface'], set()).add(a['level'])
    same_if_split = any(len(v) == 2 for v in byif.values())
    set_then_get = False
    seen_set = False
    for op in case['ops']:
        if op[0] == 'set':
            seen_set = True
        if op[0] in ('get', 'getall') and seen_set:
            set_then_get = True
    if coll:
        labels.append('colliding_name')
    if inh:
        labels.append('inherited')
    if same_if_split:
        labels.append('interface_split_over_classes')
    if set_then_get:
        labels.append('set_then_get')
    for op in case['ops']:
        if op[0] == 'assign' and len(op) > 3 and op[3]:
            labels.append('assign_wrapped_declared' if op[3] == 1 else 'assign_wrapped_other_type')
    if len(case['ops']) % 2 == 0:
        labels.append('class_inspected_first')
    labels.append({0: 'plain_export', 1: 'exported_through_adapter', 2: 'moved_from_another_connection',
                   3: 'exported_over_a_predecessor'}[len(case['ops']) % 4])
    return coll or inh or set_then_get, sorted(set(labels))


def _val(sig):
    # Python equality is the oracle here: NaN is not generated
    if sig == 'd':
        return S.tree_for('d').map(lambda h: '3ff8000000000000' if S._is_nan_hex(h) else h)
    return S.tree_for(sig, 2)


@st.composite
def gen_case(draw, tier):
    nif = draw(st.integers(1, 2))
    pool = ['Alpha', 'Beta', 'Gamma', 'Delta', 'Eps']
    ifaces = []
    attrs = []
    k = 0
    # interface and property names that run into each other when written back to back:
    # 'org.verif.P' + 'XAlpha' reads the same as 'org.verif.PX' + 'Alpha'
    glue = nif == 2 and draw(st.integers(0, 3)) == 0
    for i in range(nif):
        names = draw(st.lists(st.sampled_from(pool if not glue else (['XAlpha', 'XBeta', 'Gamma'] if i == 0 else
                                                                      ['Alpha', 'Beta', 'Gamma'])),
                              min_size=1, max_size=4, unique=True))
        props = []
        for n in names:
            props.append({'name': n, 'sig': draw(st.sampled_from(TYPES)), 'r': draw(st.booleans()),
                          'w': draw(st.booleans()), 'emits': draw(st.sampled_from(['true', 'true', 'false', 'invalidates']))})
        ifaces.append({'name': ('org.verif.P%d' % i) if not glue else ('org.verif.P', 'org.verif.PX')[i], 'props': props,
                       'level': draw(st.sampled_from([0, 0, 1]))})
    counts = {}
    for s in ifaces:
        for p in s['props']:
            counts[p['name']] = counts.get(p['name'], 0) + 1
    for s in ifaces:
        for p in s['props']:
            lvl = draw(st.sampled_from([0, 1]))
            if s['level'] == 1 and False:
                lvl = 1
            # (the Python attribute a descriptor sits on is the class author's business: public, private, dunder-ish)
            attrs.append({'attr': ['p%d', '_p%d', 'p%d', '__p%d_'][k % 4] % k, 'pname': p['name'], 'iface': s['name'],
                          'explicit': True if counts[p['name']] > 1 else draw(st.booleans()),
                          'level': lvl, 'init': draw(_val(p['sig']))})
            k += 1
    ops = []
    for _ in range(draw(st.integers(1, 15))):
        kind = draw(st.sampled_from(['assign', 'get', 'get', 'set', 'set', 'getall', 'getall']))
        ai = draw(st.integers(0, len(attrs) - 1))
        sig = None
        for s in ifaces:
            if s['name'] == attrs[ai]['iface']:
                for p in s['props']:
                    if p['name'] == attrs[ai]['pname']:
                        sig = p['sig']
        if kind == 'assign':
            ops.append(['assign', ai, draw(_val(sig)), draw(st.sampled_from([0, 0, 1, 2, 2]))])
        elif kind == 'get':
            ops.append(['get', ai, draw(st.sampled_from(['right', 'right', 'empty', 'other', 'unknown'])),
                        draw(st.sampled_from(['right', 'right', 'right', 'wrong']))])
        elif kind == 'set':
            ops.append(['set', ai, draw(st.sampled_from(['right', 'right', 'empty', 'other', 'unknown'])),
                        draw(st.sampled_from(['right', 'right', 'right', 'wrong'])), draw(_val(sig))])
        else:
            ops.append(['getall', draw(st.sampled_from(['named', 'named', 'empty', 'unknown'])), draw(st.integers(0, 3))])
    return {'ifaces': ifaces, 'attrs': attrs, 'ops': ops}


SUBCHECKS = [
    Subcheck('history', run_case, classify, strategy=lambda tier: gen_case(tier),
             n={'quick': 350, 'thorough': 4000}),
]
