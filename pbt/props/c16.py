"""C16 -- the remotely visible object tree is exactly what was exported (DESIGN.md section 3, C16)."""
import itertools
import xml.etree.ElementTree as ET

from hypothesis import strategies as st

from .. import refcodec as R
from ..core import Disc, Subcheck, exc_detail, exc_key

PROPERTY_ID = 'C16'
LEVEL = 'exploration'
RULE = ('The pool also holds path elements that start with a digit (/a/7, /a/2nd/x) and /_. histories of export / re-export (another object at an exported path) / unexport on DBusObjectHandler (recording '
        'connection) over a path pool built to contain the traps: / /a /a/b /a/bc /a/b/c /a/b/c/d /ab /a_b /b plus two '
        'never-exported paths; objects are of three classes (one interface; two interfaces incl. a non-emitting typed '
        'property, and false in a boolean context through __len__; a subclass that adds a property to the inherited interface and brings a second interface) with '
        'readable, read-write and write-only properties assigned before export; a path that was unexported is exported '
        'again either with a fresh object or with the very instance that was there before; properties (announcing and silent) '
        'of exported objects change afterwards (setprop). After EVERY step and for EVERY pool path three parsed messages are sent: an '
        'ordinary call, Introspect, GetManagedObjects. enum: all histories to 4 (quick) / 5 (thorough) steps over a '
        '6-path pool, exhaustive; random: to 30 steps over the full pool. oracle (set model): ordinary call is '
        'UnknownObject iff the path is not exported; Introspect lists exactly the first path segments of exported '
        'descendants (ElementTree), once each, and fails iff the path has neither object nor descendants; '
        'GetManagedObjects on an exported path has exactly the exported paths strictly beneath it (by segments) as keys, '
        'each with all interfaces of that object and exactly its readable properties with current values (strict '
        'reference decode); every export / unexport emitted exactly one InterfacesAdded / InterfacesRemoved naming that '
        'path and interface set. Non-trivial = the exported set contains a textual-but-not-segment prefix pair or a '
        'grandchild without its parent; distinct = distinct history JSON. The two interfaces share one property NAME (Rw: i on T1, s on T2); '
        'class variant 3 re-declares the first of its two inherited interfaces by name and inherits the second. bus_tree: the tree '
        'the bus daemon itself exports, introspected at ancestors, itself, siblings and strangers. Every fourth export goes through '
        'a registered adapter.')
ASSUMPTIONS = ['properties are assigned before export; only exported paths are unexported']

POOL = ['/', '/a', '/a/b', '/a/bc', '/a/b/c', '/a/b/c/d', '/ab', '/a_b', '/b',
        '/a/7', '/a/2nd/x', '/_']      # path elements may start with a digit or be a lone underscore
NEVER = ['/a/b/x', '/zz']
SMALL = ['/', '/a', '/a/b', '/a/bc', '/a/b/c', '/ab']
PROPS = 'org.freedesktop.DBus.Properties'


class _Conn:
    def __init__(self):
        self.sent = []

    def sendMessage(self, m):
        self.sent.append(m)


def _make_class(variant):
    """0: one interface; 1: two interfaces, and the object is falsy (defines __len__ -> 0); 2: a subclass of 0 that adds a property to the *inherited* interface and
    brings a second interface of its own (one interface populated at two levels of the class hierarchy); 3: a subclass
    that declares the FIRST of its base's two interfaces again, by name, and inherits the second."""
    from txdbus import interface as I
    from txdbus import objects as O
    i1 = I.DBusInterface('org.verif.T1', I.Method('Poke', '', 's'),
                         I.Property('Ro', 's'), I.Property('Rw', 'i', writeable=True),
                         I.Property('Wo', 's', readable=False, writeable=True), I.Property('Late', 's'), noRegister=True)
    # T2 declares a property with the SAME NAME as one of T1 (properties are scoped per interface), other type, other value
    i2 = I.DBusInterface('org.verif.T2', I.Property('Num', 'u'), I.Property('Quiet', 'q', emitsOnChange=False),
                         I.Property('Rw', 's'), noRegister=True)
    base_ns = {'Ro': O.DBusProperty('Ro'), 'Rw': O.DBusProperty('Rw', 'org.verif.T1'), 'Wo': O.DBusProperty('Wo'),
               'dbus_Poke': lambda self: 'poked', 'dbusInterfaces': [i1]}
    if variant == 0:
        return type('Tree0', (O.DBusObject,), base_ns)
    if variant == 1:
        ns = dict(base_ns)
        ns['Num'] = O.DBusProperty('Num')
        ns['Quiet'] = O.DBusProperty('Quiet')
        ns['Rw2'] = O.DBusProperty('Rw', 'org.verif.T2')
        ns['dbusInterfaces'] = [i1, i2]
        ns['__len__'] = lambda self: 0      # an exported object may be an (empty) container: false in a boolean context
        return type('Tree1', (O.DBusObject,), ns)
    if variant == 3:
        # the base class lists [T1, T2]; the subclass declares T1 AGAIN (a newer edition with one more method) and
        # nothing else: the object has T1 and - inherited - T2
        ns = dict(base_ns)
        ns['Num'] = O.DBusProperty('Num')
        ns['Quiet'] = O.DBusProperty('Quiet')
        ns['Rw2'] = O.DBusProperty('Rw', 'org.verif.T2')
        ns['dbusInterfaces'] = [i1, i2]
        base3 = type('Tree3Base', (O.DBusObject,), ns)
        i1b = I.DBusInterface('org.verif.T1', I.Method('Poke', '', 's'), I.Method('Poke2', '', 's'),
                              I.Property('Ro', 's'), I.Property('Rw', 'i', writeable=True),
                              I.Property('Wo', 's', readable=False, writeable=True), I.Property('Late', 's'), noRegister=True)
        return type('Tree3', (base3,), {'dbusInterfaces': [i1b], 'dbus_Poke2': lambda self: 'poked twice'})
    base = type('Tree2Base', (O.DBusObject,), base_ns)
    return type('Tree2', (base,), {'Late': O.DBusProperty('Late', 'org.verif.T1'), 'Num': O.DBusProperty('Num'),
                                   'Quiet': O.DBusProperty('Quiet'), 'Rw2': O.DBusProperty('Rw', 'org.verif.T2'),
                                   'dbusInterfaces': [i2]})


def _new_obj(classes, path, variant, stamp):
    o = classes[variant](path)
    o.Ro = 'ro-%s-%d' % (path, stamp)
    o.Rw = stamp
    o.Wo = 'secret'
    if variant >= 1:
        o.Num = stamp + 1000
        o.Quiet = stamp + 7
        o.Rw2 = 'two-%d' % stamp
    if variant == 2:
        o.Late = 'late-%d' % stamp
    return o


def _is_under(q, p):
    """q strictly beneath p by path segments"""
    if q == p:
        return False
    if p == '/':
        return q.startswith('/') and q != '/'
    return q.startswith(p + '/')


def _call(MSG, h, conn, path, iface, member, serial):
    raw = R.encode_variant(serial, 1, serial, {1: path, 2: iface, 3: member, 7: ':1.3', 6: ':1.4'})
    del conn.sent[:]
    h.handleMethodCallMessage(MSG.parseMessage(raw, []))
    out = list(conn.sent)
    del conn.sent[:]
    return out


def _expected_props(model_obj):
    variant, stamp, path = model_obj[:3]
    changed = model_obj[3] if len(model_obj) > 3 else {}
    want = {'org.verif.T1': {'Ro': ['s', 'ro-%s-%d' % (path, stamp)], 'Rw': ['i', changed.get('Rw', stamp)]}, PROPS: {}}
    if variant >= 1:
        want['org.verif.T2'] = {'Num': ['u', stamp + 1000], 'Quiet': ['q', changed.get('Quiet', stamp + 7)],
                                'Rw': ['s', 'two-%d' % stamp]}
    if variant == 2:
        want['org.verif.T1']['Late'] = ['s', 'late-%d' % stamp]
    return want


def run_history(case):
    from txdbus import message as MSG
    from txdbus import objects as O
    out = []
    try:
        classes = {0: _make_class(0), 1: _make_class(1), 2: _make_class(2), 3: _make_class(3)}
        conn = _Conn()
        h = O.DBusObjectHandler(conn)
        model = {}     # path -> (variant, stamp, path)
        live = {}      # path -> (instance, variant, stamp) currently exported
        parked = {}    # path -> (instance, variant, stamp) last unexported from that path
        parked_changes = {}
        serial = 10
        paths = case['pool'] + NEVER
        for si, op in enumerate(case['ops']):
            kind = op[0]
            path = case['pool'][op[1] % len(case['pool'])]
            del conn.sent[:]
            if kind == 'setprop':
                # a property of an exported object changes afterwards - one that announces changes (Rw) or one that does
                # not (Quiet): what GetManagedObjects reports is the object's current state, not its state at export
                if path not in model:
                    continue
                obj, variant, stamp = live[path]
                name = 'Quiet' if (op[2] % 2 and variant >= 1) else 'Rw'
                value = 500 + si
                setattr(obj, name, value)
                ch = dict(model[path][3]) if len(model[path]) > 3 else {}
                ch[name] = value
                model[path] = (model[path][0], model[path][1], model[path][2], ch)
                del conn.sent[:]
            elif kind == 'export_broken':
                # an export that FAILS (a readable property was never given a value, so the announcement cannot be
                # built) at a path that is in use: whatever the failed call leaves behind, the path was exported before,
                # nobody unexported it, no InterfacesRemoved went out - it is still there
                if path not in model:
                    continue
                broken = classes[0](path)          # Ro / Rw / Wo never assigned
                try:
                    h.exportObject(broken)
                    failed = False
                except Exception:
                    failed = True
                del conn.sent[:]
                if failed:
                    serial += 1
                    rep = _call(MSG, h, conn, path, 'org.verif.T1', 'Poke', serial)
                    d = _one(rep, out, 'call', path)
                    if d is not None and d['type'] == 3 and d['fields'].get(4) == 'org.freedesktop.DBus.Error.UnknownObject':
                        out.append(Disc('export.failed-export-removed-the-path', 'path %s was exported, a second export there '
                                                                                'failed, now the path is unknown' % path))
                        break
                # put things into a defined state again: a proper object takes the path
                obj = _new_obj(classes, path, 0, si)
                live[path] = (obj, 0, si)
                h.exportObject(obj)
                model[path] = (0, si, path, {})
                del conn.sent[:]
            elif kind == 'export':
                variant = op[2] % 4
                stamp = si
                if len(op) > 3 and op[3] and path in parked and path not in model:
                    # the very instance that was exported and unexported before goes back
                    obj, variant, stamp = parked.pop(path)
                    kept = parked_changes.pop(path, {})      # the instance comes back as it was left
                else:
                    obj = _new_obj(classes, path, variant, si)
                    kept = {}
                live[path] = (obj, variant, stamp)
                del conn.sent[:]
                try:
                    if si % 4 == 3:
                        from . import c10
                        h.exportObject(c10._plain_for(O, obj))    # reaches IDBusObject through a registered adapter
                    else:
                        h.exportObject(obj)
                except Exception as e:
                    out.append(Disc(exc_key(e, 'export.raises'), exc_detail(e)))
                    break
                model[path] = (variant, stamp, path, kept)
                sigs = list(conn.sent)
                ok = False
                if len(sigs) == 1:
                    try:
                        d = R.decode_message(sigs[0].rawMessage)
                        props = {k: {pk: pv for pk, pv in v} for k, v in d['body'][1]}
                        ok = (d['type'] == 4 and d['fields'].get(3) == 'InterfacesAdded' and d['body'][0] == path
                              and props == _expected_props(model[path]))
                    except Exception:
                        ok = False
                if not ok:
                    out.append(Disc('signal.InterfacesAdded', 'export %s: %r' % (path, [_desc(m) for m in sigs])))
            elif kind == 'unexport':
                if path not in model:
                    continue
                try:
                    h.unexportObject(path)
                except Exception as e:
                    out.append(Disc(exc_key(e, 'unexport.raises'), exc_detail(e)))
                    break
                gone = model.pop(path)
                variant = gone[0]
                parked[path] = live.pop(path)
                parked_changes[path] = gone[3] if len(gone) > 3 else {}
                sigs = list(conn.sent)
                ok = False
                if len(sigs) == 1:
                    try:
                        d = R.decode_message(sigs[0].rawMessage)
                        want = {'org.verif.T1', PROPS} | ({'org.verif.T2'} if variant >= 1 else set())
                        # (an interface declared at two levels of the hierarchy - variant 3 - may be NAMED twice; the
                        # statement asks for the interfaces to be named, not for a duplicate-free list)
                        ok = (d['type'] == 4 and d['fields'].get(3) == 'InterfacesRemoved' and d['body'][0] == path
                              and set(d['body'][1]) == want and (variant == 3 or len(d['body'][1]) == len(want)))
                    except Exception:
                        ok = False
                if not ok:
                    out.append(Disc('signal.InterfacesRemoved', 'unexport %s: %r' % (path, [_desc(m) for m in sigs])))
            # ---- query every path
            exported = set(model)
            for p in paths:
                serial += 1
                # ordinary call
                try:
                    rep = _call(MSG, h, conn, p, 'org.verif.T1', 'Poke', serial)
                except Exception as e:
                    out.append(Disc(exc_key(e, 'call.raises'), exc_detail(e)))
                    break
                d = _one(rep, out, 'call', p)
                if d is not None:
                    unknown = d['type'] == 3 and d['fields'].get(4) == 'org.freedesktop.DBus.Error.UnknownObject'
                    if unknown != (p not in exported):
                        out.append(Disc('call.%s' % ('ghost-object' if not unknown else 'exported-object-unknown'),
                                        'after step %d path %s exported=%r: %s' % (si, p, sorted(exported), _desc(rep[0]))))
                    elif p in exported and (d['type'] != 2 or d['body'] != ['poked']):
                        out.append(Disc('call.wrong-reply', _desc(rep[0])))
                # Introspect
                serial += 1
                rep = _call(MSG, h, conn, p, 'org.freedesktop.DBus.Introspectable', 'Introspect', serial)
                d = _one(rep, out, 'introspect', p)
                if d is not None:
                    base = '/' if p == '/' else p + '/'
                    kids = sorted({q[len(base):].split('/')[0] for q in exported if _is_under(q, p)})
                    visible = p in exported or bool(kids)
                    if d['type'] == 3:
                        if visible:
                            out.append(Disc('introspect.fails-for-visible-path', 'path %s exported=%r' % (p, sorted(exported))))
                    else:
                        if not visible:
                            out.append(Disc('introspect.succeeds-for-invisible-path', 'path %s exported=%r' % (p, sorted(exported))))
                        try:
                            xml = d['body'][0]
                            root = ET.fromstring(xml[xml.index('<node'):])
                            got = sorted(el.get('name') for el in root.findall('node'))
                            ifn = sorted(el.get('name') for el in root.findall('interface'))
                        except Exception as e:
                            out.append(Disc('introspect.xml-unparseable', str(e)))
                            got = None
                        if got is not None and got != kids:
                            out.append(Disc('introspect.children:%s' % ('extra' if set(got) - set(kids) else 'missing'),
                                            'path %s exported=%r: expected children %r got %r' % (p, sorted(exported), kids, got)))
                        if got is not None and p in exported:
                            want_if = {'org.verif.T1', PROPS} | ({'org.verif.T2'} if model[p][0] >= 1 else set())
                            if not want_if <= set(ifn):
                                out.append(Disc('introspect.interfaces', 'expected %r within %r' % (sorted(want_if), ifn)))
                        if got is not None and p not in exported and [i for i in ifn]:
                            out.append(Disc('introspect.interfaces-on-unexported-path', repr(ifn)))
                # GetManagedObjects
                serial += 1
                rep = _call(MSG, h, conn, p, 'org.freedesktop.DBus.ObjectManager', 'GetManagedObjects', serial)
                d = _one(rep, out, 'managed', p)
                if d is not None:
                    if p not in exported:
                        if not (d['type'] == 3 and d['fields'].get(4) == 'org.freedesktop.DBus.Error.UnknownObject'):
                            out.append(Disc('managed.unexported-path-answered', '%s: %s' % (p, _desc(rep[0]))))
                    elif d['type'] != 2 or d['body_sig'] != 'a{oa{sa{sv}}}':
                        out.append(Disc('managed.wrong-reply', _desc(rep[0])))
                    else:
                        got = {q: {i: {pk: pv for pk, pv in pv_} for i, pv_ in ifs} for q, ifs in d['body'][0]}
                        want = {q: _expected_props(model[q]) for q in exported if _is_under(q, p)}
                        if set(got) != set(want):
                            extra = sorted(set(got) - set(want))
                            out.append(Disc('managed.keys:%s' % ('extra' if extra else 'missing'),
                                            'GetManagedObjects(%s) exported=%r: expected %r got %r' % (
                                                p, sorted(exported), sorted(want), sorted(got))))
                        elif got != want:
                            out.append(Disc('managed.properties', 'expected %r got %r' % (want, got)))
                if out:
                    break
            if out:
                break
    except Exception as e:
        out.append(Disc(exc_key(e, 'c16.exception'), exc_detail(e)))
    return out


def _one(rep, out, what, p):
    if len(rep) != 1:
        out.append(Disc('%s.reply-count' % what, 'path %s: %d replies' % (p, len(rep))))
        return None
    try:
        return R.decode_message(rep[0].rawMessage)
    except R.RefError as e:
        out.append(Disc('%s.malformed-reply' % what, '%s: %s' % (p, e)))
        return None


def _desc(m):
    try:
        d = R.decode_message(m.rawMessage, strict=False)
        return 'type %d fields %r body %r' % (d['type'], d['fields'], str(d['body'])[:300])
    except Exception as e:
        return 'undecodable (%s)' % e


def classify(case):
    labels = []
    nt = False
    exported = set()
    for op in case['ops']:
        p = case['pool'][op[1] % len(case['pool'])]
        if op[0] == 'export':
            exported.add(p)
        elif op[0] == 'unexport':
            exported.discard(p)
        elif op[0] == 'export_broken':
            if p in exported:
                labels.append('failed_export_on_occupied_path')
        elif p in exported:
            labels.append('property_changed_after_export')
        for a in exported:
            for b in exported:
                if a != b and b.startswith(a) and a != '/' and not _is_under(b, a):
                    nt = True
                    labels.append('textual_prefix_pair')
                if _is_under(b, a) and b.count('/') - (a.count('/') if a != '/' else 0) >= 2:
                    parent = b.rsplit('/', 1)[0] or '/'
                    if parent not in exported:
                        nt = True
                        labels.append('grandchild_without_parent')
    if any(op[0] == 'unexport' for op in case['ops']):
        labels.append('unexport')
    gone = set()
    for op in case['ops']:
        p = case['pool'][op[1] % len(case['pool'])]
        if op[0] == 'unexport':
            gone.add(p)
        elif p in gone:
            labels.append('reexport_same_instance' if len(op) > 3 and op[3] else 'reexport_fresh_instance')
    return nt, sorted(set(labels))


def enum_histories(tier):
    n = 4 if tier == 'quick' else 5
    npool = len(SMALL)
    alphabet = [('export', i) for i in range(npool)] + [('unexport', i) for i in range(npool)]
    for length in range(1, n + 1):
        for seq in itertools.product(alphabet, repeat=length):
            # prune: unexport only of currently exported paths, no export of an exported path (re-export is random-only)
            cur = set()
            ok = True
            for k, i in seq:
                if k == 'export':
                    if i in cur:
                        ok = False
                        break
                    cur.add(i)
                else:
                    if i not in cur:
                        ok = False
                        break
                    cur.discard(i)
            if ok:
                yield {'pool': SMALL, 'ops': [[k, i, (i + idx) % 4] for idx, (k, i) in enumerate(seq)]}
                seen, again = set(), False
                for k, i in seq:
                    if k == 'unexport':
                        seen.add(i)
                    elif i in seen:
                        again = True
                if again:
                    # the same history with the unexported instance itself exported again (not a fresh object)
                    yield {'pool': SMALL, 'ops': [[k, i, (i + idx) % 4, 1] for idx, (k, i) in enumerate(seq)]}


def enum_broken(tier):
    for variant in (0, 1, 2, 3):
        yield {'pool': SMALL, 'ops': [['export', 1, 0], ['export', 2, variant], ['export_broken', 2, 0], ['unexport', 2, 0],
                                      ['export', 2, variant], ['export_broken', 1, 0]]}


def enum_setprop(tier):
    """Parent and child exported, a property of the child (announcing or silent) changed afterwards, parent queried."""
    for variant in (0, 1, 2, 3):
        for which in (0, 1):
            for tail in ([], [['export', 0, 0]], [['unexport', 1, 0], ['export', 1, variant, 1]]):
                yield {'pool': SMALL, 'ops': [['export', 0, 0], ['export', 1, variant], ['setprop', 1, which]] + tail +
                       [['setprop', 1, which]]}


@st.composite
def random_history(draw, tier):
    ops = []
    for _ in range(draw(st.integers(1, 30))):
        ops.append([draw(st.sampled_from(['export', 'export', 'export', 'export', 'unexport', 'unexport', 'setprop', 'export_broken'])),
                    draw(st.integers(0, len(POOL) - 1)),
                    draw(st.integers(0, 3)), draw(st.integers(0, 1))])
    return {'pool': POOL, 'ops': ops}


# --------------------------------------------------------------------------
# the same machinery hosted by somebody else: the bus daemon exports itself at /org/freedesktop/DBus

BUS_PATHS = ['/', '/org', '/org/freedesktop', '/org/freedesktop/DBus', '/org/freedesktopX', '/org/freedesktop/DBus/x', '/nope']


def enum_bus_tree(tier):
    for order in (BUS_PATHS, list(reversed(BUS_PATHS))):
        for little in (True, False):
            yield {'paths': order, 'little': little}


def run_bus_tree(case):
    from .. import simnet as N
    out = []
    try:
        rig = N.BusRig()
        c = rig.attach()
        c.little = case['little']
    except N.RigFailure as e:
        return [Disc('bus_tree.attach-failed', str(e))]
    exported = {'/org/freedesktop/DBus'}
    try:
        for p in case['paths']:
            s = c.send(1, {1: p, 2: 'org.freedesktop.DBus.Introspectable', 3: 'Introspect', 6: 'org.freedesktop.DBus'})
            rig.pump_all()
            r = [m for m in c.inbox if m['type'] in (2, 3) and m['fields'].get(5) == s]
            if len(r) != 1:
                out.append(Disc('bus_tree.reply-count', 'Introspect %s on the bus: %d replies' % (p, len(r))))
                continue
            d = r[0]
            base = '/' if p == '/' else p + '/'
            kids = sorted({q[len(base):].split('/')[0] for q in exported if _is_under(q, p)})
            visible = p in exported or bool(kids)
            if d['type'] == 3:
                if visible:
                    out.append(Disc('bus_tree.fails-for-visible-path', 'Introspect %s on the bus daemon: %r %r' % (
                        p, d['fields'].get(4), d['body'])))
                continue
            if not visible:
                out.append(Disc('bus_tree.succeeds-for-invisible-path', p))
                continue
            try:
                xml = d['body'][0]
                root = ET.fromstring(xml[xml.index('<node'):])
                got = sorted(el.get('name') for el in root.findall('node'))
                ifn = sorted(el.get('name') for el in root.findall('interface'))
            except Exception as e:
                out.append(Disc('bus_tree.xml-unparseable', '%s: %s' % (p, e)))
                continue
            if got != kids:
                out.append(Disc('bus_tree.children', 'Introspect %s: expected children %r got %r' % (p, kids, got)))
            if p in exported and 'org.freedesktop.DBus' not in ifn:
                out.append(Disc('bus_tree.interfaces', repr(ifn)))
            if p not in exported and ifn:
                out.append(Disc('bus_tree.interfaces-on-unexported-path', '%s: %r' % (p, ifn)))
    except Exception as e:
        out.append(Disc(exc_key(e, 'bus_tree.exception'), exc_detail(e)))
    return out


SUBCHECKS = [
    Subcheck('enum', run_history, classify, enumerate=enum_histories, shards={'quick': 8, 'thorough': 16},
             exhaustive_note='all admissible export/unexport histories of length <=4 (quick) / <=5 (thorough) over the '
                             '6-path pool, each queried at every path after every step'),
    Subcheck('broken_export', run_history, classify, enumerate=enum_broken, shards={'quick': 1, 'thorough': 1},
             exhaustive_note='an export that fails on an occupied path (3 object classes, parent and child positions)'),
    Subcheck('setprop', run_history, classify, enumerate=enum_setprop, shards={'quick': 2, 'thorough': 2},
             exhaustive_note='3 object classes x {announcing, silent} property changed after export x 3 continuations'),
    Subcheck('random', run_history, classify, strategy=lambda tier: random_history(tier),
             n={'quick': 60, 'thorough': 600}),
    Subcheck('bus_tree', run_bus_tree, lambda c: (True, ['bus_daemon_tree']), enumerate=enum_bus_tree, shards={'quick': 1, 'thorough': 1},
             exhaustive_note='the object tree the bus daemon itself exports (/org/freedesktop/DBus), introspected at its ancestors, '
                             'itself, a textual-prefix sibling, a descendant and a stranger, in two orders and byte orders'),
]
