"""C11 -- a proxy call reaches the remote method and returns what it returned (DESIGN.md section 3, C11)."""
from hypothesis import strategies as st

from .. import refcodec as R
from .. import simnet as N
from .. import strategies as S
from ..core import Disc, Subcheck, exc_detail, exc_key

PROPERTY_ID = 'C11'
LEVEL = 'exploration'
RULE = ('Every second service owns a hyphenated well-known name. the real Bus and 2-4 real DBusClientConnections (real handshake, Hello, RequestName, export) wired through '
        'scheduler-owned links; one or several clients each export their own instance (same object path) of a generated object (1-3 methods, argument and return signatures and '
        'values from the C01 space, implementations returning values / tuples, raising, or returning Deferreds fired or '
        'failed later by the harness); the others obtain proxies by explicit interface object, by known interface name or '
        'by introspection and issue 1-3 concurrent calls (some with the optional timeout= deadline), each carrying a unique token. random: the bytes in flight are '
        'delivered under a Hypothesis-drawn schedule of (link/direction choice, chunk size) with byte-level splitting. '
        'dfs: for small scenarios (2 clients, <=2 concurrent calls, cross calls) EVERY message-granular delivery order is '
        'explored by systematic re-execution. oracle at quiescence: every call Deferred fired exactly once; the exporter '
        'ran the method exactly once per call with equal arguments, on the instance exported by the addressed client; the caller got the documented return-value convention '
        'applied to what the method returned, or a RemoteError whose name and message mirror what it raised; no result is '
        'crossed between concurrent calls. Non-trivial = >=2 calls in flight, or an introspected proxy, or a '
        'container-typed argument; distinct = distinct case JSON. In every third scenario the bus has a history: somebody connected '
        'before the participants and left, a bystander connected after (all unique names must differ). A quarter of the exported '
        'objects provide IDBusObject only through a registered adapter; every third method is written as async def; '
        'explicit declarations are sometimes handed over in a list the caller overwrites afterwards.')
ASSUMPTIONS = ['links are FIFO byte streams; the bus offers ANONYMOUS only in this harness (keeps the cookie mechanism away '
               'from the real home directory)',
               'set-up traffic (handshake, Hello, RequestName, introspection) is delivered FIFO: only the calls are scheduled']

IFACE = 'org.verif.Calc'
SVC = 'org.verif.Service'


def _svc(i):
    # well-known names may contain hyphens (interface and member names may not): every second service has one
    return (SVC + str(i)) if i % 2 == 0 else 'org.verif.my-service%d' % i
TEXTS = {'plain': 'it broke', 'unicode': 'käput €', 'empty': '', 'format': '100% {broken} %s %(x)d \\n'}


class _Holder:
    class NestedFailure(Exception):
        pass


def _exc(kind):
    if kind == 'named':
        return type('NamedFailure', (Exception,), {'dbusErrorName': 'org.verif.Error.Named'})
    if kind == 'nested':
        return _Holder.NestedFailure       # its qualified name differs from its name
    if kind == 'local':
        class LocalFailure(Exception):     # defined in a function: '<locals>' in the qualified name
            pass
        return LocalFailure
    return type('VerifFailure', (Exception,), {})


def _errname(kind):
    return {'named': 'org.verif.Error.Named', 'nested': 'org.txdbus.PythonException.NestedFailure',
            'local': 'org.txdbus.PythonException.LocalFailure'}.get(kind, 'org.txdbus.PythonException.VerifFailure')


def _convention(sig, trees):
    vals = S.normal_forms(sig, trees) if sig else []
    if not vals:
        return None
    if len(vals) == 1 and sig[0] != '(':
        return vals[0]
    return vals


def _setup(case):
    from twisted.internet import defer
    from txdbus import interface as I
    from txdbus import objects as O
    net = N.BusNet()
    # the bus has a history: in every third scenario somebody connected before the participants and leaves once they
    # are all there, and a newcomer (who takes no part) connects after that
    churn = _churn(case)
    early = net.add_client() if churn else None
    conns = [net.add_client() for _ in range(case['nclients'])]
    if not net.run_fifo():
        raise N.RigFailure('handshake did not quiesce')
    for i, res in enumerate(net.connect_results[1 if churn else 0:]):
        if len(res) != 1 or res[0] is not conns[i]:
            raise N.RigFailure('client %d did not connect: %r' % (i, res))
    if churn:
        N.close(net.links[0].c)
        N.close(net.links[0].s)
        late = net.add_client()
        if not net.run_fifo() or net.connect_results[-1] != [late]:
            raise N.RigFailure('the late client did not connect: %r' % (net.connect_results[-1],))
        names = [c.busName for c in conns + [late]]
        if len(set(names)) != len(names):
            raise N.RigFailure('two live connections share a unique name: %r' % (names,))
    state = {'log': [], 'outcomes': {}, 'deferreds': {}}
    methods = [I.Method(m['name'], 'u' + m['in'], m['out']) for m in case['methods']]
    # an older, different declaration of the same interface name exists in this process; declaring it again
    # (registered, as DBusInterface does by default) makes the new definition the locally known one
    I.DBusInterface(IFACE, I.Method('Obsolete', 's', 's'), I.Method(case['methods'][0]['name'], 'as', 'b'))
    iface = I.DBusInterface(IFACE, *methods)
    ns = {'dbusInterfaces': [iface]}

    def _impl(self, name, tok, args):
        state['log'].append((name, tok, list(args), getattr(self, 'owner_index', None)))
        oc = state['outcomes'][tok]
        spec = [m for m in case['methods'] if m['name'] == name][0]
        k = oc['kind']
        if k == 'unencodable' and spec['out'] in ('', 'b', 'h'):
            k = 'value'      # any object is a fine BOOLEAN, and a method without return values has nothing to encode
        if k in ('value', 'deferred'):
            vals = S.to_py_list(spec['out'], oc['trees'], oc.get('pres', [])) if spec['out'] else []
            ret = None if not vals else (vals[0] if len(vals) == 1 else (tuple(vals) if oc.get('as_tuple', True) else list(vals)))
            if k == 'deferred':
                d = defer.Deferred()
                state['deferreds'][tok] = (d, ret)
                return d
            return ret
        if k == 'unencodable':
            # the method runs fine but hands back something that cannot travel under its declared return signature
            return object()
        if k == 'deferred-fail':
            d = defer.Deferred()
            state['deferreds'][tok] = (d, _exc(oc['exc'])(TEXTS[oc['text']]))
            return d
        raise _exc(oc['exc'])(TEXTS[oc['text']])
    ns['_impl'] = _impl
    for m in case['methods']:
        nargs = len(R.split_inner(m['in']))
        params = ''.join(', a%d' % k for k in range(nargs))
        argt = '(' + ''.join('a%d, ' % k for k in range(nargs)) + ')'
        src = 'def dbus_%s(self, tok%s):\n    return self._impl(%r, tok, %s)\n' % (m['name'], params, m['name'], argt)
        if (case['methods'].index(m) + case['nclients']) % 3 == 1:
            # the method asks who is calling, after a parameter of its own that the wire signature does not know
            src = ('def dbus_%s(self, tok%s, _step=10, dbusCaller=None):\n    if _step != 10 or not isinstance(dbusCaller, str):\n'
                   '        raise RuntimeError("called with _step=%%r dbusCaller=%%r" %% (_step, dbusCaller))\n'
                   '    return self._impl(%r, tok, %s)\n' % (m['name'], params, m['name'], argt))
        if (case['methods'].index(m) + case['nclients']) % 3 == 2:
            # this method is written as a coroutine function; where the scripted outcome is a Deferred it awaits it
            src = ('async def dbus_%s(self, tok%s):\n    r = self._impl(%r, tok, %s)\n    if isinstance(r, Deferred):\n'
                   '        r = await r\n    return r\n' % (m['name'], params, m['name'], argt))
        loc = {}
        exec(src, {'Deferred': defer.Deferred}, loc)
        ns['dbus_' + m['name']] = loc['dbus_' + m['name']]
    if case['nclients'] % 2:
        ns['__len__'] = lambda self: 0          # the exported object may be false in a boolean context
    Obj = type('Calc', (O.DBusObject,), ns)
    for ei in _exporters(case):
        exp = conns[ei]
        obj = Obj('/calc')
        obj.owner_index = ei        # every exporter exports its own instance under the same path
        if _adapted(case):
            from . import c10
            exp.exportObject(c10._plain_for(O, obj))     # provides IDBusObject through a registered adapter only
        else:
            exp.exportObject(obj)
        r = []
        exp.requestBusName(_svc(ei)).addBoth(r.append)
        if not net.run_fifo() or r != [1]:
            raise N.RigFailure('exporter %d could not take its name: %r' % (ei, r))
    return net, conns, iface, state


def _adapted(case):
    return case.get('adapted', (case['nclients'] + 2 * len(case['calls'])) % 4 == 1)


def _churn(case):
    return case.get('churn', (case['nclients'] + len(case['calls'])) % 3 == 0)


def _exporters(case):
    return case.get('exporters') or [case['exporter']]


def _route(case, call):
    """-> (caller index, target exporter index) of a call"""
    exps = _exporters(case)
    target = exps[call.get('target', 0) % len(exps)]
    callers = [i for i in range(case['nclients']) if i != target]
    return callers[call['caller'] % len(callers)], target


def _proxy(net, conn, iface, mode, target):
    from txdbus import interface as I
    res = []
    svc = _svc(target)
    scratch = None
    if mode == 'explicit' and target % 2 == 1:
        # the declarations are handed over in a list the application goes on using for other things afterwards
        scratch = [iface]
        d = conn.getRemoteObject(svc, '/calc', scratch)
    elif mode == 'explicit':
        d = conn.getRemoteObject(svc, '/calc', iface)
    elif mode == 'known':
        d = conn.getRemoteObject(svc, '/calc', IFACE)      # the definition declared last is the known one
    elif mode == 'introspect-by-name':
        I.DBusInterface.knownInterfaces.pop(IFACE, None)
        d = conn.getRemoteObject(svc, '/calc', IFACE if target % 2 else [IFACE])
    else:
        I.DBusInterface.knownInterfaces.pop(IFACE, None)
        d = conn.getRemoteObject(svc, '/calc')
    d.addBoth(res.append)
    if not net.run_fifo() or len(res) != 1 or not hasattr(res[0], 'callRemote'):
        raise N.RigFailure('getRemoteObject(%s) failed: %r' % (mode, res))
    if scratch is not None:
        scratch[0] = I.DBusInterface('org.verif.SomethingElse', I.Method('Other', '', ''), noRegister=True)
        scratch.append(scratch[0])
    return res[0]


def _execute(case, choices=None):
    """Run the scenario once.  choices: message-granular choice list (dfs) or None (use case['schedule']).
    -> (discs, branching factors per step)"""
    from twisted.python.failure import Failure
    from txdbus import error as E
    from txdbus import interface as I
    saved_known = dict(I.DBusInterface.knownInterfaces)
    out = []
    bfs = []
    net = None
    try:
        try:
            net, conns, iface, state = _setup(case)
            proxies = {}
            for call in case['calls']:
                ci, target = _route(case, call)
                if (ci, target) not in proxies:
                    mode = case['proxy_modes'][(ci + target) % len(case['proxy_modes'])]
                    proxies[(ci, target)] = _proxy(net, conns[ci], iface, mode, target)
        except N.RigFailure as e:
            return [Disc('setup.failed', str(e))], bfs
        results = {}
        specs = {}
        for tok, call in enumerate(case['calls'], start=1):
            ci, target = _route(case, call)
            spec = case['methods'][call['method'] % len(case['methods'])]
            specs[tok] = spec
            state['outcomes'][tok] = call['outcome']
            args = [tok] + (S.to_py_list(spec['in'], call['trees'], call.get('pres', [])) if spec['in'] else [])
            results[tok] = []
            try:
                kw = {}
                if call.get('timeout') is not None:
                    kw['timeout'] = call['timeout']     # the optional deadline (virtual clock: it never expires here)
                if call.get('kw') == 'interface':
                    kw['interface'] = IFACE             # the documented way to pick one of several interfaces
                elif call.get('kw') == 'no-autostart':
                    kw['autoStart'] = False
                elif call.get('kw') == 'no-reply':
                    kw['expectReply'] = False           # fire and forget: the Deferred fires at once with None
                d = proxies[(ci, target)].callRemote(spec['name'], *args, **kw)
            except Exception as e:
                out.append(Disc(exc_key(e, 'callRemote.raises'), exc_detail(e)))
                return out, bfs
            d.addBoth(results[tok].append)

        def drive():
            if choices is None:
                net.run_schedule(case['schedule'])
                return
            k = 0
            guard = 0
            while guard < 5000:
                guard += 1
                p = net.pending()
                if not p:
                    return
                bfs.append(len(p))
                c = choices[k] if k < len(choices) else 0
                k += 1
                i, d = p[c % len(p)]
                net.links[i].move(d, 0)
            raise N.RigFailure('did not quiesce')
        drive()
        # late results: fire the Deferreds the methods returned, then deliver again
        if state['deferreds']:
            for tok in sorted(state['deferreds']):
                if results[tok] and case['calls'][tok - 1].get('kw') != 'no-reply':
                    out.append(Disc('result.before-deferred-fired', 'call %d completed with %r while its method is still '
                                    'pending' % (tok, results[tok])))
            for tok in sorted(state['deferreds'], reverse=bool(case.get('fire_reversed'))):
                d, val = state['deferreds'][tok]
                if isinstance(val, Exception):
                    d.errback(Failure(val))
                else:
                    d.callback(val)
            drive()
        # ---- judge at quiescence
        for li, l in enumerate(net.links):
            if li == 0 and _churn(case):
                continue        # the early client: the harness closed that one itself
            if l.c.transport.disconnected or l.s.transport.disconnected:
                out.append(Disc('link.lost', 'connection %d was dropped' % li))
        for tok, call in enumerate(case['calls'], start=1):
            spec = specs[tok]
            oc = call['outcome']
            runs = [e for e in state['log'] if e[1] == tok]
            if len(runs) != 1:
                out.append(Disc('invoke.count:%d' % min(len(runs), 2), 'call %d (%s): method ran %d times' % (
                    tok, spec['name'], len(runs))))
            else:
                exp_args = S.normal_forms(spec['in'], call['trees']) if spec['in'] else []
                if runs[0][0] != spec['name'] or not R.nf_equal(runs[0][2], exp_args):
                    out.append(Disc('invoke.arguments', 'call %d: sent %s%r, method %s got %r' % (
                        tok, spec['name'], exp_args, runs[0][0], runs[0][2])))
                if runs[0][3] != _route(case, call)[1]:
                    out.append(Disc('invoke.wrong-exporter', 'call %d was addressed to the object of client %d and ran on '
                                                             'the object exported by client %r' % (
                                                                 tok, _route(case, call)[1], runs[0][3])))
            res = results[tok]
            if len(res) != 1:
                out.append(Disc('result.count:%d' % min(len(res), 2), 'call %d: Deferred fired %d times' % (tok, len(res))))
                continue
            r = res[0]
            if call.get('kw') == 'no-reply':
                if r is not None:
                    out.append(Disc('result.no-reply-call', 'call %d made with expectReply=False completed with %r' % (tok, r)))
                continue
            if oc['kind'] == 'unencodable' and spec['out'] not in ('', 'b', 'h'):
                # the call still concludes - with an error describing the failure on the exporting side
                if not (isinstance(r, Failure) and isinstance(r.value, E.RemoteError)):
                    out.append(Disc('result.unencodable-return-not-reported', 'call %d: caller got %r' % (tok, r)))
                continue
            if oc['kind'] in ('value', 'deferred', 'unencodable'):
                want = _convention(spec['out'], oc['trees'])
                if isinstance(r, Failure) or not R.nf_equal(r, want):
                    out.append(Disc('result.value', 'call %d %s -> %r: method returned %r, caller got %r' % (
                        tok, spec['name'], spec['out'], want, r)))
            else:
                if not (isinstance(r, Failure) and isinstance(r.value, E.RemoteError)):
                    out.append(Disc('result.expected-RemoteError', 'call %d: %r' % (tok, r)))
                elif r.value.errName != _errname(oc['exc']) or r.value.message != TEXTS[oc['text']]:
                    out.append(Disc('result.RemoteError-content', 'call %d: raised %s(%r); caller got %r %r' % (
                        tok, _errname(oc['exc']), TEXTS[oc['text']], r.value.errName, r.value.message)))
        if len(state['log']) != len(case['calls']):
            out.append(Disc('invoke.extra', 'log %r' % (state['log'],)))
    except N.RigFailure as e:
        out.append(Disc('run.did-not-quiesce', str(e)))
    except Exception as e:
        out.append(Disc(exc_key(e, 'run.exception'), exc_detail(e)))
    finally:
        if net is not None:
            net.close()
        I.DBusInterface.knownInterfaces.clear()
        I.DBusInterface.knownInterfaces.update(saved_known)
    return out, bfs


def run_random(case):
    discs, _ = _execute(case)
    return discs


def run_dfs(case):
    """Systematic exploration of every message-granular delivery order."""
    cap = case.get('cap', 400)
    stack = [[]]
    found = {}
    n = 0
    while stack:
        if n >= cap:      # bounded by case count, never by wall clock; the remainder is simply not explored
            break
        prefix = stack.pop()
        n += 1
        discs, bfs = _execute(case, prefix)
        for d in discs:
            found.setdefault(d.key, Disc(d.key, 'schedule %r: %s' % (prefix, d.detail)))
        for i in range(len(prefix), len(bfs)):
            for alt in range(1, bfs[i]):
                stack.append(prefix + [0] * (i - len(prefix)) + [alt])
    return list(found.values()), n


def classify(case):
    labels = ['clients=%d' % case['nclients']]
    nt = False
    if len(_exporters(case)) > 1:
        labels.append('several_exporters')
    if len(case['calls']) >= 2:
        nt = True
        labels.append('concurrent_calls')
    if _churn(case):
        labels.append('bus_membership_churn')
    if _adapted(case):
        labels.append('exported_through_adapter')
    if any(c.get('timeout') for c in case['calls']):
        labels.append('call_with_deadline')
    for c in case['calls']:
        if c.get('kw'):
            labels.append('kw_' + c['kw'])
    if 'introspect' in case['proxy_modes'] or 'introspect-by-name' in case['proxy_modes']:
        nt = True
        labels.append('introspected_proxy')
    for c in case['calls']:
        spec = case['methods'][c['method'] % len(case['methods'])]
        if S.has_container(spec['in']):
            nt = True
            labels.append('container_argument')
        labels.append('outcome_' + c['outcome']['kind'])
    return nt, sorted(set(labels))


_sigs = st.one_of(st.just(''), S.signature(max_types=3, depth=2, min_types=1),
                  st.sampled_from(['s', 'ii', 'as', '(is)', 'v', 'a{sv}', 'x', 'ay']))


@st.composite
def scenario(draw, tier, dfs=False):
    nclients = 2 if dfs else draw(st.integers(2, 4))
    methods = []
    for k in range(draw(st.integers(1, 3))):
        methods.append({'name': 'M%d' % k, 'in': draw(_sigs), 'out': draw(_sigs)})
    ncallers = nclients - 1
    calls = []
    for _ in range(draw(st.integers(1, 2 if dfs else 3))):
        mi = draw(st.integers(0, len(methods) - 1))
        spec = methods[mi]
        kinds = ['value', 'value', 'value', 'raise'] if dfs else ['value', 'value', 'value', 'raise', 'deferred', 'deferred-fail',
                                                                   'unencodable']
        kind = draw(st.sampled_from(kinds))
        oc = {'kind': kind, 'trees': [draw(S.tree_for(t, 2)) for t in R.split_inner(spec['out'])],
              'pres': draw(S.presentation), 'as_tuple': draw(st.booleans())}
        if kind in ('raise', 'deferred-fail'):
            oc['exc'] = draw(st.sampled_from(['plain', 'named', 'nested', 'local']))
            oc['text'] = draw(st.sampled_from(['plain', 'unicode', 'empty', 'format']))
        calls.append({'caller': draw(st.integers(0, 3)), 'method': mi,
                      'trees': [draw(S.tree_for(t, 2)) for t in R.split_inner(spec['in'])],
                      'pres': draw(S.presentation), 'outcome': oc,
                      'timeout': draw(st.sampled_from([None, None, None, 30, 0])),
                      'kw': draw(st.sampled_from([None, None, None, 'interface', 'no-autostart', 'no-reply']))})
    if dfs and len(calls) == 2 and draw(st.booleans()):
        # cross calls: both clients export, each calls the other
        calls[0]['target'], calls[1]['target'] = 0, 1
    case = {'nclients': nclients, 'exporter': draw(st.integers(0, nclients - 1)), 'methods': methods,
            'proxy_modes': [draw(st.sampled_from(['explicit', 'known', 'introspect', 'introspect-by-name'])) for _ in range(ncallers)],
            'calls': calls, 'fire_reversed': draw(st.booleans())}
    if dfs:
        case['cap'] = 300 if tier == 'quick' else 3000
        if any('target' in c for c in calls):
            case['exporters'] = [0, 1]
    else:
        if nclients >= 3 and draw(st.booleans()):
            case['exporters'] = sorted(draw(st.lists(st.integers(0, nclients - 1), min_size=2, max_size=nclients, unique=True)))
            for c in calls:
                c['target'] = draw(st.integers(0, 3))
        case['schedule'] = draw(st.lists(st.tuples(st.integers(0, 7), st.sampled_from([0, 0, 0, 1, 5, 16, 64, 1 << 20])).map(list),
                                         min_size=1, max_size=12))
    return case


SUBCHECKS = [
    Subcheck('random', run_random, classify, strategy=lambda tier: scenario(tier),
             n={'quick': 300, 'thorough': 3000}),
    Subcheck('dfs', run_dfs, classify, strategy=lambda tier: scenario(tier, dfs=True),
             n={'quick': 12, 'thorough': 100},
             exhaustive_note='per generated small scenario (2 clients, <=2 concurrent calls): every message-granular delivery '
                             'order, by systematic re-execution (capped at 300 / 3000 orders per scenario)'),
]
