"""C20 -- file descriptors stay with their message (DESIGN.md section 3, C20)."""
import itertools
import struct

from hypothesis import strategies as st

from .. import refcodec as R
from .. import simnet as N
from .. import strategies as S
from ..core import Disc, Subcheck, exc_detail, exc_key

PROPERTY_ID = 'C20'
LEVEL = 'exploration'
RULE = ('recv_bad: a refused message (type 5 / 0, bad UTF-8, truncated array) carrying 1-2 descriptors followed by a call with its own descriptor: the connection ends there or the call gets its own. recv also holds messages whose h arguments share an attachment (reference encoder in sharing mode; sub-check recv_shared and a third of the random multi-descriptor messages). send: 1-5 method calls through DBusClientConnection.callRemote on a UNIX-socket transport double, each with '
        '0-3 unix-fd arguments (top level, in arrays, in structs) mixed with plain values; oracle: for every call the '
        'transport saw sendFileDescriptor for each descriptor in argument order, then the write of that message, whose '
        'header declares exactly that count and whose h arguments are the indices 0..k-1 (strict reference decoder); a '
        'call with one unusable descriptor (-1) is either sent in full or refused with nothing handed to the transport. '
        'recv: a stream of 1-6 reference-encoded messages (all four types, descriptor-carrying calls among them) and '
        'a schedule of fd-arrival and read events drawn subject only to stream order (descriptors in sending order, '
        'each no later than the read that completes its message, arbitrarily early otherwise), with byte-level read '
        'splitting; oracle: every delivered message resolves its h arguments to the tokens attached at those '
        'positions and no token is left over. recv_enum: all placements for <=3 messages x <=2 descriptors each '
        'with message-granular reads (exhaustive). a quarter of the random cases and every enumerated placement also run with '
        'a server-role receiver that goes through the real handshake (authenticator agreeing to descriptor passing) and gets '
        'its first messages pipelined behind BEGIN. recv_burst: 6/9/14 descriptor-carrying messages (up to 42 '
        'descriptors) whose descriptors are all, or all but the last few, queued before the first byte, under four '
        'chunkings. Non-trivial = >=2 descriptor-carrying messages with a descriptor '
        'of a later message queued before an earlier message completes; distinct = distinct case JSON. send_again: one prepared '
        'message object sent 2-3 times (one or two connections): every transmission carries its descriptors. bad_tail: a call '
        'refused because an argument AFTER its descriptors cannot be encoded leaves nothing behind. Descriptor numbers start at 0, 1, '
        '3 or higher.')
ASSUMPTIONS = ['the transport double stands in for the kernel: descriptors are delivered through '
               'fileDescriptorReceived in sending order and never after the last byte of their message',
               'only method calls carry descriptors (the only path txdbus offers)']


# --------------------------------------------------------------------------
# sender side

@st.composite
def fd_args(draw, variants=False):
    """(signature, trees) with 0-3 'h' leaves in assorted positions (inside variants too when the message is one another
    implementation would send: txdbus itself cannot put a descriptor into a variant)."""
    shapes = draw(st.lists(st.sampled_from(['h', 'i', 's', 'ah', '(hi)', '(sh)', 'a(ih)', 'y', 'x', 'as'] +
                                           (['v', 'a{sv}', 'v'] if variants else [])),
                           min_size=0, max_size=4))
    sig = ''
    trees = []
    nh = 0
    # descriptor numbers as a process sees them: 0 (a daemon that closed its standard streams gets it first), small, large
    tok = draw(st.one_of(st.sampled_from([0, 0, 1, 3]), st.integers(100, 60000)))
    for t in shapes:
        if nh >= 3 and ('h' in t or t in ('v', 'a{sv}')):
            t = 'i'
        if t == 'ah':
            k = draw(st.integers(0, 3 - nh))
            tr = [tok + nh + i for i in range(k)]
            nh += k
        elif t == 'a(ih)':
            k = draw(st.integers(0, 3 - nh))
            tr = [[draw(st.integers(-5, 5)), tok + nh + i] for i in range(k)]
            nh += k
        elif t == 'h':
            tr = tok + nh
            nh += 1
        elif t == '(hi)':
            tr = [tok + nh, 7]
            nh += 1
        elif t == '(sh)':
            tr = ['x', tok + nh]
            nh += 1
        elif t == 'v':
            tr = ['h', tok + nh]
            nh += 1
        elif t == 'a{sv}':
            k = draw(st.integers(0, min(2, 3 - nh)))
            tr = [['stdout', ['h', tok + nh]], ['stderr', ['h', tok + nh + 1]]][:k] + [['mode', ['s', 'rw']]]
            nh += k
        else:
            tr = draw(S.tree_for(t))
        sig += t
        trees.append(tr)
    if nh >= 2 and draw(st.integers(0, 2)) == 0:
        # the same descriptor number passed in several arguments of one message (one pipe as stdout and stderr)
        mod = draw(st.sampled_from([1, 2]))
        trees = _replace_tokens(sig, trees, lambda t: tok + (t - tok) % mod)
    return sig, trees, nh


@st.composite
def send_case(draw, tier):
    calls = []
    for _ in range(draw(st.integers(1, 5))):
        sig, trees, nh = draw(fd_args())
        calls.append({'sig': sig, 'trees': trees, 'nh': nh, 'pres': draw(S.presentation)})
        if nh and draw(st.integers(0, 5)) == 0:
            calls[-1]['bad_at'] = draw(st.integers(0, 5))
        elif nh and len(sig) < 200 and draw(st.integers(0, 4)) == 0:
            calls[-1]['bad_tail'] = True      # an argument AFTER the descriptors cannot be encoded: the call is refused
    return {'calls': calls}


def _tokens(sig, trees):
    """h tokens in depth-first (marshalling) order."""
    out = []

    def walk(t, tr):
        c = t[0]
        if c == 'h':
            out.append(tr)
        elif c == 'a':
            et = t[1:]
            for x in tr:
                walk(et, x)
        elif c in '({':
            for ft, fv in zip(R.struct_fields(t), tr):
                walk(ft, fv)
        elif c == 'v':
            walk(tr[0], tr[1])      # a variant may hold a descriptor (other implementations send a{sv} options with them)
    for t, tr in zip(R.split_inner(sig), trees):
        walk(t, tr)
    return out


def _replace_tokens(sig, trees, mapping):
    def walk(t, tr):
        c = t[0]
        if c == 'h':
            return mapping(tr)
        if c == 'a':
            return [walk(t[1:], x) for x in tr]
        if c in '({':
            return [walk(ft, fv) for ft, fv in zip(R.struct_fields(t), tr)]
        if c == 'v':
            return [tr[0], walk(tr[0], tr[1])]
        return tr
    return [walk(t, tr) for t, tr in zip(R.split_inner(sig), trees)]


def run_send(case):
    try:
        rig = N.ClientRig(unix=True)
    except N.RigFailure as e:
        return [Disc('send.establish-failed', str(e))]
    out = []
    try:
        rig.sent_messages()
        for idx, call in enumerate(case['calls']):
            if call.get('bad_at') is not None and call['nh']:
                # one descriptor (not necessarily the first) is unusable: the call may be refused, but then nothing of it
                # may have been handed to the transport - orphan descriptors would be taken for the next message's
                toks0 = _tokens(call['sig'], call['trees'])
                bad = toks0[call['bad_at'] % len(toks0)]
                call = dict(call, trees=_replace_tokens(call['sig'], call['trees'], lambda t, bad=bad: -1 if t == bad else t))
            body = S.to_py_list(call['sig'], call['trees'], call['pres']) if call['sig'] else None
            send_sig = call['sig']
            if call.get('bad_tail') and call['nh']:
                # the descriptors were already marshalled when the client finds it cannot encode the last argument:
                # the refused call must leave nothing behind - not on the transport, not in the connection
                send_sig = call['sig'] + 's'
                body = list(body) + [12345]
                call = dict(call, bad_at=0)
            results = []
            refused = False
            try:
                d = rig.conn.callRemote('/obj', 'Take', interface='org.verif.Fd', destination='org.verif.Peer',
                                        signature=send_sig or None, body=body)
                d.addBoth(results.append)
            except Exception as e:
                if call.get('bad_at') is None:
                    out.append(Disc(exc_key(e, 'send.callRemote'), exc_detail(e)))
                    continue
                refused = True
            if results:
                if call.get('bad_at') is None:
                    out.append(Disc('send.call-failed-early', repr(results[0])))
                    continue
                refused = True
            try:
                ev = rig.sent_messages()
            except (R.RefError, AssertionError) as e:
                out.append(Disc('send.malformed-output', str(e)))
                continue
            if refused:
                if ev:
                    out.append(Disc('send.refused-call-left-something-on-the-transport',
                                    'call %d (descriptors %r) failed, yet the transport got %r' % (
                                        idx, _tokens(call['sig'], call['trees']), [(e[0], e[1] if e[0] == 'fd' else '...') for e in ev])))
                continue
            toks = _tokens(call['sig'], call['trees'])
            exp_fd = [('fd', t) for t in toks]
            got_fd = [e for e in ev if e[0] == 'fd']
            msgs = [e for e in ev if e[0] == 'msg']
            if len(msgs) != 1:
                out.append(Disc('send.message-count', '%d messages for one call' % len(msgs)))
                continue
            if ev[:len(got_fd)] != got_fd or ev[-1][0] != 'msg':
                out.append(Disc('send.fd-after-bytes', 'event order %r' % [e[0] for e in ev]))
            if got_fd != exp_fd:
                out.append(Disc('send.fd-sequence', 'call %d expected %r got %r' % (idx, exp_fd, got_fd)))
            m = msgs[0][1]
            declared = m['fields'].get(9)
            if (declared or 0) != len(toks) or (declared == 0):
                out.append(Disc('send.unix_fds-header', 'call %d: %d descriptors, header says %r' % (
                    idx, len(toks), declared)))
            exp_body = _replace_tokens(call['sig'], call['trees'], _Counter())
            if m['body'] != exp_body:
                out.append(Disc('send.body-indices', 'expected %r got %r' % (exp_body, m['body'])))
    finally:
        rig.close_rig()
    return out


class _Counter:
    def __init__(self):
        self.n = 0

    def __call__(self, tok):
        v = self.n
        self.n += 1
        return v


def classify_send(case):
    nh = [c['nh'] for c in case['calls']]
    labels = ['fds=%d' % min(sum(nh), 6)]
    if sum(1 for x in nh if x) >= 2:
        labels.append('>=2 fd calls')
    if any(x >= 2 for x in nh):
        labels.append('multi_fd_call')
    if any(c.get('bad_at') is not None and c['nh'] for c in case['calls']):
        labels.append('unusable_descriptor')
    if any(c.get('bad_tail') and c['nh'] for c in case['calls']):
        labels.append('call_refused_after_its_descriptors_were_marshalled')
    return sum(nh) > 0, labels


# --------------------------------------------------------------------------
# receiver side

def _recv_stream(case):
    """-> list of (raw bytes, tokens) per message"""
    out = []
    for m in case['msgs']:
        if m.get('nh') is not None:
            # any message type may carry descriptors on the wire (replies and signals of other implementations do)
            toks = _tokens(m['sig'], m['trees'])
            shared = None
            if m.get('share'):
                # an h value is an INDEX into the message's attachments: several arguments may name the same one (the
                # sender attaches a descriptor once and refers to it twice); the reference encoder does so here
                toks = list(dict.fromkeys(toks))
                shared = R.SharedFds()
                trees = m['trees']
            else:
                trees = _replace_tokens(m['sig'], m['trees'], _Counter())
            f = {R.FIELD_CODE[k]: v for k, v in m['fields'].items()}
            # descriptors the message declares and carries without any argument referring to them (legal: the header
            # count says how many travel with the message, the body need not use them all - or may be absent)
            spare = list(m.get('spare') or [])
            if toks or spare:
                f[9] = len(toks) + len(spare)
            raw = R.encode_variant(m['serial'] + len(toks), m['type'], m['serial'], f, m['sig'], trees, m['little'],
                                   fds=shared)
            assert shared is None or list(shared) == toks, 'harness: shared attachments'
            out.append((raw, toks + spare))
        else:
            out.append((S.ref_message_bytes(m, m['little']), []))
    return out


def _events(case):
    """Expand the case into a concrete event list [('fd', tok) | ('read', bytes)]."""
    stream = _recv_stream(case)
    data = b''.join(r for r, _ in stream)
    chunks = N.cut(data, case['cuts'])
    # index of the read that delivers the last byte of each message
    ends = []
    pos = 0
    for raw, _ in stream:
        pos += len(raw)
        ends.append(pos)
    bounds = list(itertools.accumulate(len(c) for c in chunks))

    def completing(endpos):
        for i, b in enumerate(bounds):
            if b >= endpos:
                return i
        return len(bounds) - 1
    fd_list = []   # (token, latest read index)
    for (raw, toks), e in zip(stream, ends):
        for t in toks:
            fd_list.append((t, completing(e)))
    placement = []
    prev = 0
    for i, (t, latest) in enumerate(fd_list):
        choice = case['fdpos'][i % len(case['fdpos'])] if case['fdpos'] else 0
        lo = prev
        r = lo + choice % (latest - lo + 1)
        placement.append((t, r))
        prev = r
    events = []
    k = 0
    for i, ch in enumerate(chunks):
        while k < len(placement) and placement[k][1] == i:
            events.append(('fd', placement[k][0]))
            k += 1
        events.append(('read', ch))
    assert k == len(placement)
    return events, stream, placement, ends, bounds


def run_recv(case):
    import txdbus.protocol as P
    events, stream, placement, ends, bounds = _events(case)

    class Rec(P.BasicDBusProtocol):
        def __init__(self):
            self.got = []

        def methodCallReceived(self, m):
            self.got.append(m)
        methodReturnReceived = errorReceived = signalReceived = methodCallReceived

    if case.get('handshake'):
        # the receiver is a server-side protocol that goes through the real handshake (with an authenticator that agrees
        # to descriptor passing); the peer pipelines its first messages behind BEGIN, so their descriptors ride on the
        # bytes of BEGIN and arrive before the handshake is over - a legal order on a stream socket
        from txdbus import authentication as AU

        class Agreeing(AU.BusAuthenticator):
            def _auth_NEGOTIATE_UNIX_FD(self, line):
                if self.state == 'WaitingForBegin':
                    self.sendAuthMessage(b'AGREE_UNIX_FD')
                else:
                    self.sendError()

        class _Bus:
            uuid = b'0123456789abcdef0123456789abcdef'

        class _Factory:
            bus = _Bus()

        class SrvRec(Rec):
            _client = False
            authenticator = Agreeing
            factory = _Factory()
        saved_linux = P._is_linux
        P._is_linux = False
        try:
            r = SrvRec()
            r.makeConnection(N.FakeUnixTransport())
            N.deliver(r, b'\0AUTH ANONYMOUS\r\nNEGOTIATE_UNIX_FD\r\n')
        finally:
            P._is_linux = saved_linux
        if r.transport.disconnected:
            return [Disc('recv.handshake-refused', repr(r.transport.take()))]
        first = True
        patched = []
        for kind, item in events:
            if kind == 'read' and first:
                item = b'BEGIN\r\n' + item
                first = False
            patched.append((kind, item))
        events = patched
    else:
        r = Rec()
        r.transport = N.FakeUnixTransport()
        r._receivedFDs = []
        r._authenticated = True
    for kind, item in events:
        try:
            if kind == 'fd':
                r.fileDescriptorReceived(item)
            else:
                r.dataReceived(item)
        except Exception as e:
            return [Disc(exc_key(e, 'recv.exception'), exc_detail(e))]
    out = []
    if len(r.got) != len(case['msgs']):
        return [Disc('recv.count', 'sent %d delivered %d' % (len(case['msgs']), len(r.got)))]
    for i, (m, a) in enumerate(zip(r.got, case['msgs'])):
        if a.get('nh') is not None:
            exp = S.normal_forms(a['sig'], a['trees']) if a['sig'] else None
            if a['sig'] and not R.nf_equal(m.body, exp):
                out.append(Disc('recv.fd-attribution', 'message %d expected %r got %r; events %r' % (
                    i, exp, m.body, [(k, v if k == 'fd' else len(v)) for k, v in events])))
        else:
            for k, det in S.compare_parsed(m, a, None, 'recv'):
                out.append(Disc(k, 'message %d: %s' % (i, det)))
    if r._receivedFDs:
        out.append(Disc('recv.leftover-descriptors', repr(r._receivedFDs)))
    return out


def classify_recv(case):
    try:
        events, stream, placement, ends, bounds = _events(case)
    except Exception:
        return False, ['bad']
    labels = []
    carriers = [i for i, (_, toks) in enumerate(stream) if toks]
    if len(carriers) >= 2:
        labels.append('>=2 fd messages')
    # a descriptor of a later message queued before an earlier fd-carrying message completes
    early = False
    idx = 0
    comp = {}
    for mi, (raw, toks) in enumerate(stream):
        e = ends[mi]
        comp[mi] = next(i for i, b in enumerate(bounds) if b >= e)
    for mi, (raw, toks) in enumerate(stream):
        for _ in toks:
            t, r = placement[idx]
            idx += 1
            for mj in carriers:
                if mj < mi and r <= comp[mj]:
                    early = True
    if early:
        labels.append('later_fd_queued_early')
    if len(case['cuts']) > len(stream):
        labels.append('split_reads')
    if case.get('handshake'):
        labels.append('pipelined_behind_BEGIN')
    if any(m.get('share') for m in case['msgs']):
        labels.append('arguments_sharing_an_attachment')
    if placement and max(sum(1 for _, r in placement if r <= i) - sum(len(stream[mj][1]) for mj in carriers if comp[mj] < i)
                         for i in range(len(bounds))) > 16:
        labels.append('>16 descriptors queued at once')
    return early, labels


@st.composite
def recv_msg(draw, tok_base):
    if draw(st.integers(0, 2)) == 0:
        m = draw(S.message(body_depth=1))
        m['little'] = draw(st.booleans())
        return m, 0
    sig, trees, nh = draw(fd_args(variants=True))
    # re-base tokens so they are globally distinct
    toks = _tokens(sig, trees)
    mp = {t: tok_base + i for i, t in enumerate(toks)}
    trees = _replace_tokens(sig, trees, lambda t: mp[t])
    share = len(toks) >= 2 and draw(st.integers(0, 2)) == 0
    if share:
        # every second descriptor argument refers to the first attachment again
        trees = _replace_tokens(sig, trees, lambda t: tok_base if (t - tok_base) % 2 == 1 else t)
    t = draw(st.sampled_from([1, 1, 2, 3, 4]))
    fields = {1: {'path': '/o', 'member': 'Take'}, 2: {'reply_serial': 5}, 3: {'error_name': 'a.b.E', 'reply_serial': 5},
              4: {'path': '/o', 'member': 'Gave', 'interface': 'a.b'}}[t]
    m = {'type': t, 'fields': fields, 'sig': sig, 'trees': trees, 'pres': [],
         'no_reply': False, 'no_auto': False, 'serial': draw(st.integers(1, 2**32 - 1)), 'nh': nh,
         'little': draw(st.booleans())}
    if share:
        m['share'] = True
    nspare = draw(st.sampled_from([0, 0, 0, 1, 2]))
    if nspare:
        m['spare'] = [tok_base + nh + i for i in range(nspare)]
        if draw(st.booleans()):
            m['sig'], m['trees'], m['nh'] = '', [], 0       # no body at all: only the header speaks of descriptors
            m['spare'] = [tok_base + i for i in range(nspare)]
            return m, nspare
    return m, nh + nspare


@st.composite
def recv_case(draw, tier):
    msgs = []
    # descriptor numbers as the receiving process sees them: from 0 (a daemon that closed its standard streams is handed
    # 0, 1, 2 first) or from somewhere higher up
    base = draw(st.sampled_from([0, 0, 3, 1000]))
    for _ in range(draw(st.integers(1, 6))):
        m, nh = draw(recv_msg(base))
        base += nh
        msgs.append(m)
    case = {'msgs': msgs, 'cuts': [], 'fdpos': draw(st.lists(st.integers(0, 50), min_size=1, max_size=8))}
    stream = _recv_stream(case)
    total = sum(len(r) for r, _ in stream)
    mode = draw(st.sampled_from(['msg', 'random', 'random', 'bytes']))
    if mode == 'msg':
        case['cuts'] = list(itertools.accumulate(len(r) for r, _ in stream))[:-1]
    elif mode == 'random':
        k = draw(st.integers(0, 10))
        case['cuts'] = sorted(set(draw(st.lists(st.integers(1, max(1, total - 1)), min_size=k, max_size=k))))
    else:
        case['cuts'] = list(range(1, total)) if total < 400 else []
    case['handshake'] = draw(st.integers(0, 3)) == 0
    return case


def enum_recv(tier):
    """<=3 messages x 0..2 descriptors each, message-granular reads, every admissible placement."""
    for n in (1, 2, 3):
        for counts in itertools.product((0, 1, 2), repeat=n):
            msgs = []
            base = 0 if n % 2 else 500
            for mi, c in enumerate(counts):
                sig = 'h' * c + 'i'
                trees = [base + j for j in range(c)] + [mi]
                base += c
                t = [1, 2, 4][(mi + n) % 3]
                fl = {1: {'path': '/o', 'member': 'Take'}, 2: {'reply_serial': 5},
                      4: {'path': '/o', 'member': 'Gave', 'interface': 'a.b'}}[t]
                msgs.append({'type': t, 'fields': fl, 'sig': sig, 'trees': trees,
                             'pres': [], 'no_reply': False, 'no_auto': False, 'serial': mi + 1, 'nh': c,
                             'little': True})
            nfd = sum(counts)
            # placements are encoded through fdpos choices; enumerate all choice vectors in a box that
            # covers every admissible placement (choice is taken modulo the admissible range)
            ranges = [range(0, n)] * nfd
            seen = set()
            for fdpos in itertools.product(*ranges) if nfd else [()]:
                case = {'msgs': msgs, 'cuts': [], 'fdpos': list(fdpos) or [0]}
                stream = _recv_stream(case)
                case['cuts'] = list(itertools.accumulate(len(r) for r, _ in stream))[:-1]
                ev = tuple((k, v if k == 'fd' else len(v)) for k, v in _events(case)[0])
                if ev in seen:
                    continue
                seen.add(ev)
                yield case
                if nfd:
                    yield dict(case, handshake=True)


def enum_recv_shared(tier):
    """Messages in which several h arguments name the same attachment, alone and followed by a message with a
    descriptor of its own, descriptors delivered ahead of their message."""
    for base in (0, 40):
        for sig, trees in (('hh', [base, base]), ('hhh', [base, base + 1, base]), ('ahh', [[base, base + 1, base + 1], base]),
                           ('(hs)h', [[base, 'x'], base])):
            for follow in (False, True):
                for hs in (False, True):
                    msgs = [{'type': 4, 'fields': {'path': '/o', 'member': 'Gave', 'interface': 'a.b'}, 'sig': sig, 'trees': trees,
                             'pres': [], 'no_reply': False, 'no_auto': False, 'serial': 1, 'nh': len(set(_tokens(sig, trees))),
                             'little': not hs, 'share': True}]
                    if follow:
                        msgs.append({'type': 1, 'fields': {'path': '/o', 'member': 'Take'}, 'sig': 'h', 'trees': [base + 7],
                                     'pres': [], 'no_reply': False, 'no_auto': False, 'serial': 2, 'nh': 1, 'little': True})
                    case = {'msgs': msgs, 'cuts': [], 'fdpos': [0]}
                    stream = _recv_stream(case)
                    case['cuts'] = list(itertools.accumulate(len(r) for r, _ in stream))[:-1]
                    yield dict(case, handshake=True) if hs else case


def enum_recv_burst(tier):
    """Long bursts: 6-14 descriptor-carrying messages whose descriptors all arrive before the first byte (what a
    receiver sees when a sender writes a batch at once), or in two batches, read in a few different chunkings."""
    for n in (6, 9, 14):
        for pattern in ((3,), (1, 2, 3), (3, 0, 2)):
            msgs = []
            base = 700
            for mi in range(n):
                c = pattern[mi % len(pattern)]
                sig = 'h' * c + 'i'
                trees = [base + j for j in range(c)] + [mi]
                base += c
                t = [1, 2, 4][mi % 3]
                fl = {1: {'path': '/o', 'member': 'Take'}, 2: {'reply_serial': 5},
                      4: {'path': '/o', 'member': 'Gave', 'interface': 'a.b'}}[t]
                msgs.append({'type': t, 'fields': fl, 'sig': sig, 'trees': trees, 'pres': [], 'no_reply': False,
                             'no_auto': False, 'serial': mi + 1, 'nh': c, 'little': mi % 2 == 0})
            for fdpos in ([0], [0] * (base - 700 - 4) + [50]):
                case = {'msgs': msgs, 'cuts': [], 'fdpos': fdpos}
                stream = _recv_stream(case)
                ends = list(itertools.accumulate(len(r) for r, _ in stream))
                for cuts in (ends[:-1], [], [e - 3 for e in ends], list(range(7, ends[-1], 61))):
                    yield dict(case, cuts=sorted(set(c for c in cuts if 0 < c < ends[-1])))


def enum_send_again(tier):
    """A prepared message object sent more than once (re-issued call, one message for two connections): every
    transmission carries the message's descriptors, ahead of its bytes."""
    for nfd in (1, 2, 3):
        for times in (2, 3):
            for via in ('sendMessage', 'callRemoteMessage'):
                for second_conn in (False, True):
                    yield {'nfd': nfd, 'times': times, 'via': via, 'second_conn': second_conn}


def run_send_again(case):
    from txdbus import message as MSG
    try:
        rig = N.ClientRig(unix=True)
        rig2 = None
        if case['second_conn']:
            rig.C.reactor = rig._saved_reactor
            rig2 = N.ClientRig(unix=True, bus_name=':1.44')
    except N.RigFailure as e:
        return [Disc('send_again.establish-failed', str(e))]
    out = []
    try:
        rig.sent_messages()
        fds = [40 + i for i in range(case['nfd'])]
        prepared = MSG.MethodCallMessage('/obj', 'Take', interface='org.verif.Fd', destination='org.verif.Peer',
                                         signature='h' * case['nfd'], body=list(fds), expectReply=False, oobFDs=[])
        other = MSG.MethodCallMessage('/obj', 'One', interface='org.verif.Fd', destination='org.verif.Peer',
                                      signature='h', body=[77], expectReply=False, oobFDs=[])
        plan = [(prepared, fds)] * case['times'] + [(other, [77])]
        for k, (m, want_fds) in enumerate(plan):
            r = rig2 if (rig2 is not None and k % 2 == 1) else rig
            if r is rig2 and k == 1:
                r.sent_messages()
            try:
                if case['via'] == 'sendMessage':
                    r.conn.sendMessage(m)
                else:
                    r.conn.callRemoteMessage(m)
            except Exception as e:
                out.append(Disc(exc_key(e, 'send_again.raises'), exc_detail(e)))
                break
            ev = r.sent_messages()
            got_fd = [e[1] for e in ev if e[0] == 'fd']
            msgs = [e for e in ev if e[0] == 'msg']
            if len(msgs) != 1 or (ev and ev[-1][0] != 'msg'):
                out.append(Disc('send_again.shape', 'transmission %d: events %r' % (k, [e[0] for e in ev])))
                break
            if got_fd != want_fds:
                out.append(Disc('send_again.descriptors-missing', 'transmission %d of %s: header declares %r, transport got '
                                'descriptors %r, expected %r' % (k, m.member, msgs[0][1]['fields'].get(9), got_fd, want_fds)))
                break
            if msgs[0][1]['fields'].get(9) != len(want_fds):
                out.append(Disc('send_again.unix_fds-header', 'transmission %d: %r' % (k, msgs[0][1]['fields'].get(9))))
                break
    finally:
        rig.close_rig()
    return out


def classify_send_again(case):
    labels = [case['via'], 'times=%d' % case['times']]
    if case['second_conn']:
        labels.append('two_connections')
    return True, labels


def enum_recv_bad(tier):
    """A message the library cannot make sense of (a message type from a later protocol revision, a body that is not what
    its signature says, an over-long signature) that carries descriptors, followed by an ordinary descriptor message."""
    for bad in ('type5', 'bad-utf8', 'type0', 'truncated-body'):
        for nbad in (1, 2):
            for early in (False, True):
                for little in (True, False):
                    yield {'bad': bad, 'nbad': nbad, 'early': early, 'little': little}


def run_recv_bad(case):
    import txdbus.protocol as P

    class Rec(P.BasicDBusProtocol):
        def __init__(self):
            self.got = []

        def methodCallReceived(self, m):
            self.got.append(m)
        methodReturnReceived = errorReceived = signalReceived = methodCallReceived

    r = Rec()
    r.transport = N.FakeUnixTransport()
    r._receivedFDs = []
    r._authenticated = True
    n = case['nbad']
    le = case['little']
    f = {1: '/o', 2: 'a.b', 3: 'Odd', 9: n}
    if case['bad'] == 'type5':
        bad = R.encode_message(5, 3, f, 'h' * n, list(range(100, 100 + n)), le)
    elif case['bad'] == 'type0':
        bad = R.encode_message(0, 3, f, 'h' * n, list(range(100, 100 + n)), le)
    elif case['bad'] == 'bad-utf8':
        body = struct.pack(('<' if le else '>') + 'I', 2) + b'\xff\xfe\0'
        bad = R.encode_message(4, 3, f, 's', [], le, raw_body=body)
    else:
        bad = R.encode_message(4, 3, f, 'as', [], le, raw_body=struct.pack(('<' if le else '>') + 'I', 400) + b'\0' * 4)
    good = R.encode_message(1, 4, {1: '/o', 3: 'Now', 9: 1}, 'h', [7], le)
    bad_fds = list(range(40, 40 + n))
    events = [('fd', x) for x in bad_fds]
    if case['early']:
        events += [('fd', 77), ('read', bad), ('read', good)]
    else:
        events += [('read', bad), ('fd', 77), ('read', good)]
    for kind, item in events:
        try:
            if kind == 'fd':
                r.fileDescriptorReceived(item)
            else:
                r.dataReceived(item)
        except Exception:
            # the message is refused and the exception leaves dataReceived: the transport drops the connection there, nothing
            # follows, nothing can be misattributed
            return []
    out = []
    calls = [m for m in r.got if getattr(m, 'member', None) == 'Now']
    if len(calls) != 1:
        out.append(Disc('recv_bad.following-message-lost', 'the connection survived the refused message, then delivered %d '
                        'of the one call that followed' % len(calls)))
    elif calls[0].body != [77]:
        out.append(Disc('recv_bad.fd-attribution', 'after a refused message carrying descriptors %r the call sent with descriptor '
                        '77 was delivered with %r (queue left: %r)' % (bad_fds, calls[0].body, list(r._receivedFDs))))
    return out


SUBCHECKS = [
    Subcheck('send', run_send, classify_send, strategy=lambda tier: send_case(tier),
             n={'quick': 150, 'thorough': 1500}),
    Subcheck('send_again', run_send_again, classify_send_again, enumerate=enum_send_again, shards={'quick': 1, 'thorough': 1},
             exhaustive_note='one prepared descriptor-carrying message sent 2-3 times (sendMessage / callRemoteMessage, one '
                             'or two connections), then a fresh one'),
    Subcheck('recv', run_recv, classify_recv, strategy=lambda tier: recv_case(tier),
             n={'quick': 400, 'thorough': 4000}),
    Subcheck('recv_shared', run_recv, classify_recv, enumerate=enum_recv_shared, shards={'quick': 1, 'thorough': 1},
             exhaustive_note='4 argument shapes in which h values share an attachment x followed or not by another descriptor '
                             'message x with / without the handshake in the same stream'),
    Subcheck('recv_bad', run_recv_bad, lambda c: (True, [c['bad'], 'fd_early' if c['early'] else 'fd_just_in_time']),
             enumerate=enum_recv_bad, shards={'quick': 1, 'thorough': 1},
             exhaustive_note='4 kinds of refused message x 1-2 descriptors on it x descriptor of the next message queued before '
                             '/ after it x byte order'),
    Subcheck('recv_burst', run_recv, classify_recv, enumerate=enum_recv_burst, shards={'quick': 4, 'thorough': 4},
             exhaustive_note='bursts of 6/9/14 descriptor-carrying messages (up to 42 descriptors) with all descriptors '
                             'queued before the first byte, or all but the last few, under four chunkings'),
    Subcheck('recv_enum', run_recv, classify_recv, enumerate=enum_recv, shards={'quick': 2, 'thorough': 2},
             exhaustive_note='<=3 descriptor-carrying calls x 0..2 descriptors each, one read per message: every '
                             'stream-consistent placement of descriptor arrivals'),
]
