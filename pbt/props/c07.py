"""C07 -- the client sends BEGIN only after OK and never stalls (DESIGN.md section 3, C07)."""
import binascii
import hashlib
import itertools
import os
import shutil
import tempfile

from hypothesis import strategies as st

from .. import simnet as N
from ..core import Disc, Subcheck, exc_detail, exc_key

PROPERTY_ID = 'C07'
LEVEL = 'exploration'
RULE = ('Reference-server keyrings vary: wanted line last / inside, with / without final newline, directory mode 0700 / 02700 / 01700 / 0500. lines: sequences of server lines over an abstract alphabet (REJECTED with/without list, OK with hex / non-hex / '
        'no GUID, DATA hex / junk / empty, ERROR, AGREE_UNIX_FD, unknown word, empty line; non-UTF-8 and ERROR text in '
        'random ones), exhaustive to length 4 (quick) / 5 (thorough) x {UNIX, non-UNIX transport double}, random to '
        'length 30, fed line-per-read and again under a second splitting that must give the identical transcript; '
        'oracle = rules over the observed write/close history: S1 BEGIN only after an OK with a non-empty hex GUID in '
        'the current exchange and, on UNIX transports, only in answer to AGREE_UNIX_FD or ERROR following its '
        'NEGOTIATE_UNIX_FD (which must then be sent); S2 AUTH names EXTERNAL, DBUS_COOKIE_SHA1, ANONYMOUS in that order, '
        'each at most once, only after REJECTED/ERROR; S3 every server line is followed by a client line, a close or '
        'completion; S4 a line outside the protocol or exhaustion of the mechanisms closes the connection. '
        'lines_near: near-commands (foreign bytes inside a command word, glued suffixes, words of the other side, handler '
        'names read off the implementation) are all outside the protocol. handshake: full conversations against a spec-following reference server actor for every non-empty subset of '
        'accepted mechanisms x answer to NEGOTIATE_UNIX_FD (AGREE/ERROR) x transport kind, the cookie keyring living '
        'under a scratch $HOME, plus cookie challenges this client cannot answer (unknown cookie id, no keyring); oracle '
        'S5: the handshake completes whenever the server accepts a mechanism the client can carry through, otherwise the '
        'client closes and never claims success. Non-trivial = the sequence contains a valid OK or '
        'moves past the first mechanism; distinct = distinct case JSON. In every second cookie handshake the keyring directory is '
        'a symbolic link to a private directory; challenges come in lower- or upper-case hex; $HOME is spelled with // or /./ in half '
        'of the cases; the real uid differs from the effective uid (os.getuid patched) in two thirds; REJECTED also comes with a '
        'partial or foreign mechanism list.')
ASSUMPTIONS = ['an exception escaping dataReceived counts as connection loss (what the reactor does)',
               'the reference server actor is the trusted statement of a spec-conforming server']

GUIDHEX = b'0123456789abcdef0123456789abcdef'
PREF = [b'EXTERNAL', b'DBUS_COOKIE_SHA1', b'ANONYMOUS']
LETTERS = {
    'RJ': b'REJECTED EXTERNAL DBUS_COOKIE_SHA1 ANONYMOUS', 'RJ0': b'REJECTED', 'OKh': b'OK ' + GUIDHEX,
    # the list a server sends along is advice: one that names only mechanisms already used up, or none the client knows
    'RJe': b'REJECTED EXTERNAL', 'RJk': b'REJECTED KERBEROS_V4 SKEY',
    'OKx': b'OK not-hex!', 'OK0': b'OK', 'Dh': b'DATA 6162', 'Dj': b'DATA zz', 'D0': b'DATA', 'ER': b'ERROR',
    'ERt': b'ERROR "no way"', 'AG': b'AGREE_UNIX_FD', 'UK': b'WHATEVER x', 'EM': b'', 'NU': b'\xff\xfe\xfd',
    'OKs': b'OK  ' + GUIDHEX + b' ', 'LC': b'ok ' + GUIDHEX, 'Dc': b'DATA ' + binascii.hexlify(b'ctx 1 abcdef'),
    # hex digits, but not ONE hexadecimal string: blanks / tabs between byte pairs, an extra hex token
    'OKw': b'OK 0123456789abcdef 0123456789abcdef', 'OKb': b'OK 01 23 45 67', 'OKtab': b'OK 0123\t4567',
    'OKodd': b'OK 012', 'OK0x': b'OK 0x0123456789abcdef',
}
CORE = ['RJ', 'RJe', 'OKh', 'OKx', 'OK0', 'OKw', 'Dh', 'Dj', 'D0', 'ER', 'AG', 'UK', 'EM']
# near-commands: a real command word with foreign bytes in it, glued to something, or a word of the other side
NEAR = {'OKn': b'O\xc3\xa9K ' + GUIDHEX, 'OKz': b'OK\xe2\x80\x8b ' + GUIDHEX, 'RJn': b'\xe2\x80\x8bREJECTED',
        'AGn': b'AGREE\xc2\xa0_UNIX_FD', 'ERn': b'ERR\xc3\x96OR', 'OKAY': b'OKAY ' + GUIDHEX, 'AGx': b'AGREE_UNIX_FDS',
        'RJx': b'REJECTEDX EXTERNAL', 'BGs': b'BEGIN', 'AUs': b'AUTH EXTERNAL',
        # the command word set off by something other than the single blank, or not at the start of the line
        'OKt': b'OK\t' + GUIDHEX, 'OKlt': b'\tOK ' + GUIDHEX, 'OKls': b' OK ' + GUIDHEX, 'OKv': b'OK\x0b' + GUIDHEX,
        'OKf': b'OK\x0c' + GUIDHEX, 'RJt': b'REJECTED\tEXTERNAL', 'RJl': b' REJECTED', 'Dt': b'DATA\t6162',
        'AGl': b'\tAGREE_UNIX_FD', 'AGt': b'AGREE_UNIX_FD\t'}
LETTERS.update(NEAR)


def _whitebox_words():
    """Words the authenticators would dispatch on by handler name and that are not server lines of the protocol."""
    try:
        from txdbus import authentication as AU
        names = set()
        for cls in (AU.ClientAuthenticator, AU.BusAuthenticator):
            for n in dir(cls):
                if n.startswith('_auth_') and callable(getattr(cls, n, None)):
                    names.add(n[len('_auth_'):])
        return sorted(w for w in names if w and w not in {'OK', 'REJECTED', 'ERROR', 'DATA', 'AGREE_UNIX_FD'})
    except Exception:
        return []


WHITEBOX = {}
for _i, _w in enumerate(_whitebox_words()):
    WHITEBOX['WB%d' % _i] = _w.encode('ascii', 'replace') + b' ' + GUIDHEX
LETTERS.update(WHITEBOX)
KIND = {'RJ': 'rejected', 'RJ0': 'rejected', 'RJe': 'rejected', 'RJk': 'rejected', 'OKh': 'ok', 'OKs': 'ok', 'OKx': 'ok_bad', 'OK0': 'ok_bad',
        'OKw': 'ok_bad', 'OKb': 'ok_bad', 'OKtab': 'ok_bad', 'OKodd': 'ok_bad', 'OK0x': 'ok_bad',
        'Dh': 'data', 'Dj': 'data', 'D0': 'data', 'Dc': 'data', 'ER': 'error', 'ERt': 'error', 'AG': 'agree',
        'UK': 'outside', 'EM': 'outside', 'NU': 'outside', 'LC': 'outside'}
for _k in list(NEAR) + list(WHITEBOX):
    KIND[_k] = 'outside'
SPLITS = ['bytes', 'one', 'crlf', 'cuts']


def _pref(case):
    """The client's preference list for this case: the default, or a configured one (any order, any subset)."""
    p = case.get('pref')
    return [x.encode() for x in p] if p else list(PREF)


def _client(unix, log, pref=None):
    import txdbus.protocol as P
    from txdbus import authentication as AU
    auth_cls = AU.ClientAuthenticator
    if pref is not None and list(pref) != list(PREF):
        # the documented way to configure the mechanisms: a subclass with its own preference list
        auth_cls = type('PrefClientAuthenticator', (AU.ClientAuthenticator,), {'preference': list(pref)})

    class Cli(P.BasicDBusProtocol):
        _client = True
        authenticator = auth_cls

        def connectionAuthenticated(self):
            log['authed'] += 1

    c = Cli()
    # a UNIX transport may declare what it is on its class or on the instance (wrapped transports do the latter)
    c.makeConnection((N.unix_transport_by_instance() if unix == 'instance' else N.FakeUnixTransport()) if unix else N.FakeTransport())
    return c


def _out_lines(raw):
    """Client output -> (lines, trailing-bytes-after-last-CRLF)"""
    parts = raw.split(b'\r\n')
    return parts[:-1], parts[-1]


def _eval_history(case, first_out, history):
    """history: list of (letter, client_lines, closed, authed_now, leftover)."""
    out = []
    unix = case['unix']
    PREF = _pref(case)      # (shadows the default list: every rule below speaks about THIS client's preference)
    auths = []
    lines0, left0 = first_out
    if not first_out[0] and left0 == b'':
        out.append(Disc('rules.no-initial-output', 'nothing written on connect'))
        return out
    if not left0.startswith(b'\0') and not (lines0 and lines0[0].startswith(b'\0')):
        out.append(Disc('rules.no-initial-nul', repr(first_out)))
    init = [ln.lstrip(b'\0') for ln in lines0]
    ok_valid = False
    neg_pending = False
    done = False

    def on_client_line(ln, kind):
        nonlocal ok_valid, neg_pending, done
        w = ln.split(b' ')[0]
        if w == b'AUTH':
            mech = ln.split(b' ')[1] if len(ln.split(b' ')) > 1 else b''
            if kind not in ('start', 'rejected', 'error'):
                out.append(Disc('S2.auth-not-after-rejection:%s' % kind, 'AUTH %r sent in answer to %s' % (mech, kind)))
            if len(auths) >= len(PREF) or mech != PREF[len(auths)]:
                out.append(Disc('S2.mechanism-order', 'AUTH lines so far %r then %r' % (auths, mech)))
            auths.append(mech)
            ok_valid = False
            neg_pending = False
        elif w == b'BEGIN':
            if not ok_valid:
                out.append(Disc('S1.begin-without-ok:%s' % kind, 'BEGIN written in answer to %s with no valid OK in '
                                'the current exchange' % kind))
            elif unix and not (neg_pending and kind in ('agree', 'error')):
                out.append(Disc('S1.begin-before-fd-negotiation-answer:%s' % kind, ''))
            elif not unix and kind != 'ok':
                out.append(Disc('S1.begin-not-in-answer-to-ok:%s' % kind, ''))
            done = True
        elif w == b'NEGOTIATE_UNIX_FD':
            if not unix:
                out.append(Disc('S1.negotiate-on-non-unix', ''))
            if kind != 'ok':
                out.append(Disc('S1.negotiate-not-after-ok:%s' % kind, ''))
            neg_pending = True
        elif w in (b'DATA', b'CANCEL', b'ERROR'):
            pass
        else:
            out.append(Disc('rules.unknown-client-line', repr(ln)))

    for ln in init:
        on_client_line(ln, 'start')
    if auths != [PREF[0]]:
        out.append(Disc('S2.first-auth', repr(init)))
    for idx, (letter, clines, closed, authed, leftover) in enumerate(history):
        kind = KIND[letter]
        was_neg = neg_pending
        was_ok = ok_valid
        mech_before = auths[-1] if auths else None
        n_auth_before = len(auths)
        if kind == 'ok':
            ok_valid = True
        if kind == 'rejected':
            ok_valid = False
            neg_pending = False
        for ln in clines:
            on_client_line(ln, kind)
        if leftover:
            out.append(Disc('S1.binary-bytes-during-handshake', repr(leftover)))
        wrote_begin = any(ln.split(b' ')[0] == b'BEGIN' for ln in clines)
        if authed != wrote_begin:
            out.append(Disc('rules.authenticated-flag-vs-begin', 'authenticated=%r BEGIN written=%r' % (authed, wrote_begin)))
        if not clines and not closed and not authed:
            out.append(Disc('S3.stall:%s.%s' % ((mech_before or b'?').decode(), kind),
                            'server line %r (mechanism %r) met with silence' % (LETTERS[letter], mech_before)))
        # S4: outside the protocol -> close
        outside = kind in ('outside', 'ok_bad') or (kind == 'agree' and not (unix and was_neg))
        exhausted = kind in ('rejected', 'error') and n_auth_before == len(PREF) and not (unix and was_neg and kind == 'error')
        if outside and not closed:
            out.append(Disc('S4.no-close-after-%s' % ('agree-out-of-turn' if kind == 'agree' else kind),
                            'line %r: client wrote %r and stayed connected' % (LETTERS[letter], clines)))
        if exhausted and not closed:
            out.append(Disc('S4.no-close-when-exhausted', 'line %r' % LETTERS[letter]))
        # the descriptor negotiation answered: the client must proceed to BEGIN
        if unix and was_neg and was_ok and kind in ('agree', 'error') and not wrote_begin:
            out.append(Disc('S1.negotiation-answer-%s-not-followed-by-begin' % kind,
                            'server answered NEGOTIATE_UNIX_FD with %r; client wrote %r closed=%r' % (
                                LETTERS[letter], clines, closed)))
        if kind in ('agree', 'error'):
            neg_pending = False if wrote_begin or kind == 'agree' else neg_pending
        if closed or authed:
            break
    return out


def _canonical(case):
    log = {'authed': 0}
    c = _client(case['unix'], log, _pref(case))
    first = _out_lines(c.transport.take())
    history = []
    for letter in case['seq']:
        N.deliver(c, LETTERS[letter] + b'\r\n')
        lines, leftover = _out_lines(c.transport.take())
        closed = c.transport.disconnected
        history.append((letter, lines, closed, log['authed'] > 0, leftover))
        if closed or log['authed']:
            break
    summary = (first, [(h[1], h[4]) for h in history], c.transport.disconnected, log['authed'])
    return first, history, summary


def _split_run(case, nlines):
    log = {'authed': 0}
    c = _client(case['unix'], log, _pref(case))
    first = c.transport.take()
    data = b''.join(LETTERS[x] + b'\r\n' for x in case['seq'][:nlines])
    mode = case['split']
    if mode == 'bytes':
        chunks = [data[i:i + 1] for i in range(len(data))]
    elif mode == 'one':
        chunks = [data]
    elif mode == 'crlf':
        chunks = N.cut(data, [i + 1 for i in range(len(data)) if data[i:i + 2] == b'\r\n'])
    else:
        chunks = N.cut(data, [x % max(1, len(data)) for x in case.get('cuts', [2, 9, 33])])
    outb = b''
    for ch in chunks:
        if c.transport.disconnected:
            break
        N.deliver(c, ch)
        outb += c.transport.take()
    return (first, outb, c.transport.disconnected, log['authed'])


def run_lines(case):
    try:
        first, history, summary = _canonical(case)
    except Exception as e:
        return [Disc(exc_key(e, 'lines.exception'), exc_detail(e))]
    out = _eval_history(case, first, history)
    if out:
        return out
    try:
        # lines following the one that closed the connection may share a read with it: they must be disregarded.
        # (Only after a completed handshake are further bytes binary, so the sequence is cut there.)
        s2 = _split_run(case, len(history) if summary[3] else len(case['seq']))
    except Exception as e:
        return [Disc(exc_key(e, 'split.exception'), exc_detail(e))]
    canon_bytes = b''.join(b''.join(ln + b'\r\n' for ln in lines) + left for lines, left in summary[1])
    first_raw = b''.join(ln + b'\r\n' for ln in first[0]) + first[1]
    if (first_raw, canon_bytes, summary[2], summary[3]) != s2:
        out.append(Disc('split.%s.transcript-differs' % case['split'],
                        'lines %r: line-per-read wrote %r closed=%r authed=%r; %s wrote %r closed=%r authed=%r' % (
                            [LETTERS[x] for x in case['seq'][:len(history)]], canon_bytes, summary[2], summary[3],
                            case['split'], s2[1], s2[2], s2[3])))
    return out


def classify_lines(case):
    labels = ['unix' if case['unix'] else 'tcp', 'split_' + case['split']]
    has_ok = any(KIND[x] == 'ok' for x in case['seq'])
    past_first = any(KIND[x] in ('rejected', 'error') for x in case['seq'])
    if has_ok:
        labels.append('has_ok')
    if past_first:
        labels.append('past_first_mechanism')
    return has_ok or past_first, labels


def enum_lines(tier):
    maxlen = 4 if tier == 'quick' else 5
    i = 0
    for unix in (False, True):
        for n in range(1, maxlen + 1):
            for seq in itertools.product(CORE, repeat=n):
                yield {'seq': list(seq), 'unix': unix, 'split': SPLITS[i % 3]}
                i += 1


@st.composite
def random_lines(draw, tier):
    n = draw(st.integers(1, 30))
    pool = st.sampled_from(sorted(LETTERS) + ['RJ', 'ER', 'OKh', 'AG', 'Dh'] * 2)
    return {'seq': [draw(pool) for _ in range(n)], 'unix': draw(st.booleans()),
            'split': draw(st.sampled_from(SPLITS)),
            'cuts': draw(st.lists(st.integers(1, 500), min_size=1, max_size=8))}


# --------------------------------------------------------------------------
# full handshakes against a spec-following server actor

class RefServer:
    """Deterministic, spec-following authentication server (actor)."""

    def keyring_mode(self):
        return [0o700, 0o2700, 0o1700, 0o500][(len(self.accept) + (self.neg_answer == b'ERROR') +
                                                 2 * (self.external_style == 'data')) % 4]

    def __init__(self, accept, neg_answer, keyring, nonce, external_style, cookie_mode='ok'):
        self.cookie_mode = cookie_mode          # 'ok' | 'unknown-id' (challenge names a cookie the keyring lacks) | 'no-keyring'
        self.accept = set(accept)
        self.neg_answer = neg_answer
        self.keyring = keyring
        self.nonce = nonce
        self.external_style = external_style    # 'ok' (accept at once) | 'data' (empty challenge first)
        self.state = 'WFA'
        self.mech = None
        self.closed = False
        self.begun = False
        self.rejects = 0
        self.cookie = None
        self.challenge = None
        self.out = []

    def _send(self, b):
        self.out.append(b + b'\r\n')

    def _reject(self):
        self.rejects += 1
        self.state = 'WFA'
        self.mech = None
        self._send(b'REJECTED ' + b' '.join(m.encode() for m in sorted(self.accept)))

    def _ok(self):
        self.state = 'WFB'
        self._send(b'OK ' + GUIDHEX)

    def line(self, ln):
        parts = ln.split(b' ', 1)
        cmd = parts[0]
        args = parts[1].split() if len(parts) > 1 else []
        if self.state == 'WFA':
            if cmd == b'AUTH':
                if not args or args[0].decode('ascii', 'replace') not in self.accept:
                    return self._reject()
                mech = args[0].decode()
                if mech == 'ANONYMOUS':
                    return self._ok()
                if mech == 'EXTERNAL':
                    if len(args) > 1 or self.external_style == 'ok':
                        return self._ok()
                    self.state, self.mech = 'WFD', mech
                    return self._send(b'DATA')
                if mech == 'DBUS_COOKIE_SHA1':
                    if len(args) < 2:
                        return self._reject()
                    self.cookie = binascii.hexlify(hashlib.sha1(b'cookie' + self.nonce).digest() * 2)[:48]
                    if self.cookie_mode != 'no-keyring':
                        os.makedirs(self.keyring, mode=0o700, exist_ok=True)
                        with open(os.path.join(self.keyring, 'org_verif_ref'), 'wb') as f:
                            # (another implementation picks ids at random and appends: the file is in no particular order)
                            now = str(int(__import__('time').time())).encode()
                            lines = [b'2300 ' + now + b' ' + b'ab' * 24, b'7 1 ' + b'00' * 8, b'11 ' + now + b' ' + self.cookie]
                            if self.external_style == 'data':
                                lines.append(b'12000 ' + now + b' ' + b'cd' * 24)     # the wanted line is not the last one
                            # a file is a sequence of lines; whether the last one ends in a newline is up to whoever wrote it
                            f.write(b'\n'.join(lines) + (b'' if self.neg_answer == b'ERROR' else b'\n'))
                        # the directory is private (nothing for group or others) - which leaves the owner's bits and the
                        # special bits free: set-group-ID (inherited below a setgid parent), sticky, owner read-only
                        os.chmod(self.keyring, self.keyring_mode())
                    self.challenge = binascii.hexlify(hashlib.sha1(b'chal' + self.nonce).digest())
                    self.state, self.mech = 'WFD', mech
                    cid = b'12' if self.cookie_mode == 'unknown-id' else b'11'
                    enc = binascii.hexlify(b'org_verif_ref ' + cid + b' ' + self.challenge)
                    if (len(self.accept) + (self.external_style == 'data')) % 2:
                        enc = enc.upper()       # hex digits may be capitals
                    return self._send(b'DATA ' + enc)
                return self._reject()
            if cmd == b'BEGIN':
                self.closed = True
                return
            if cmd == b'ERROR':
                return self._reject()
            return self._send(b'ERROR "not now"')
        if self.state == 'WFD':
            if cmd == b'DATA':
                if self.mech == 'EXTERNAL':
                    return self._ok()
                try:
                    cchal, h = binascii.unhexlify(args[0]).split()
                except Exception:
                    return self._reject()
                want = binascii.hexlify(hashlib.sha1(self.challenge + b':' + cchal + b':' + self.cookie).digest())
                return self._ok() if h == want and self.cookie_mode == 'ok' else self._reject()
            if cmd == b'BEGIN':
                self.closed = True
                return
            if cmd in (b'CANCEL', b'ERROR'):
                return self._reject()
            return self._send(b'ERROR "expected DATA"')
        if self.state == 'WFB':
            if cmd == b'BEGIN':
                self.begun = True
                return
            if cmd in (b'CANCEL', b'ERROR'):
                return self._reject()
            if cmd == b'NEGOTIATE_UNIX_FD':
                return self._send(self.neg_answer)
            return self._send(b'ERROR "expected BEGIN"')


def _keyring_is_link(case):
    return case.get('cookie', 'ok') != 'no-keyring' and (len(case['accept']) + (case['external'] == 'data')) % 2 == 0


def run_handshake(case):
    scratch = tempfile.mkdtemp(prefix='verif-c07-')
    saved_home = os.environ.get('HOME')
    os.environ['HOME'] = scratch
    if case['external'] == 'data':
        # $HOME need not be spelled canonically (a doubled slash, a /./ component): it names the same directory
        os.environ['HOME'] = os.path.dirname(scratch) + ('//' if case['unix'] else '/./') + os.path.basename(scratch)
    out = []
    saved_getuid = os.getuid
    if case['unix'] is not True:
        # a process whose REAL uid differs from its effective uid (a daemon after seteuid(), a set-uid program): files
        # it creates - its keyring - belong to the effective uid, which is the identity that counts
        os.getuid = lambda: saved_getuid() + 1000
    try:
        log = {'authed': 0}
        if _keyring_is_link(case):
            # the keyring directory is reached through a symbolic link (a home directory laid out by a configuration
            # manager): the directory it leads to is private, which is what counts (libdbus stat()s it too)
            os.mkdir(os.path.join(scratch, 'real-keyrings'), 0o700)
            os.symlink('real-keyrings', os.path.join(scratch, '.dbus-keyrings'))
        c = _client(case['unix'], log, _pref(case))
        srv = RefServer(case['accept'], case['neg'].encode(), os.path.join(scratch, '.dbus-keyrings'),
                        case['nonce'].encode(), case['external'], case.get('cookie', 'ok'))
        pending = c.transport.take().lstrip(b'\0')
        rounds = 0
        trace = []
        while rounds < 40:
            rounds += 1
            lines, leftover = _out_lines(pending)
            pending = b''
            if leftover:
                out.append(Disc('handshake.partial-line-written', repr(leftover)))
            for ln in lines:
                trace.append(('C', ln))
                if srv.begun:
                    out.append(Disc('handshake.line-after-begin', repr(ln)))
                srv.line(ln)
            if srv.closed or srv.begun or c.transport.disconnected:
                break
            if not srv.out:
                break
            for resp in srv.out:
                trace.append(('S', resp.rstrip()))
                if c.transport.disconnected:
                    break
                N.deliver(c, resp)
                pending += c.transport.take()
            srv.out = []
            if log['authed'] and not pending:
                break
        ok = srv.begun and log['authed'] == 1 and not c.transport.disconnected
        # mechanisms the server accepts AND this client can carry through (a cookie it does not have cannot be proven)
        usable = [m for m in ['EXTERNAL', 'DBUS_COOKIE_SHA1', 'ANONYMOUS'] if m in case['accept']
                  and not (m == 'DBUS_COOKIE_SHA1' and case.get('cookie', 'ok') != 'ok')]
        first_ok = usable[0] if usable else None
        if first_ok is None:
            # nothing can succeed: the client must give up by closing, and must not claim success
            if log['authed'] or srv.begun:
                out.append(Disc('S1.authenticated-without-usable-mechanism', '\n'.join('%s: %r' % t for t in trace)))
            elif not c.transport.disconnected:
                out.append(Disc('S3.stall:no-usable-mechanism', 'accept=%r cookie=%r: client neither finished nor closed\n%s' % (
                    case['accept'], case.get('cookie'), '\n'.join('%s: %r' % t for t in trace))))
        elif not ok:
            out.append(Disc('S5.handshake-fails:%s%s' % (first_ok, (',neg=' + case['neg']) if case['unix'] else ''),
                            'accept=%r unix=%r: server begun=%r client authenticated=%r closed=%r\n%s' % (
                                case['accept'], case['unix'], srv.begun, log['authed'], c.transport.disconnected,
                                '\n'.join('%s: %r' % t for t in trace))))
        elif log['authed'] and not srv.begun:
            out.append(Disc('S1.client-authenticated-but-server-not', ''))
    except Exception as e:
        out.append(Disc(exc_key(e, 'handshake.exception'), exc_detail(e)))
    finally:
        os.getuid = saved_getuid
        if saved_home is None:
            os.environ.pop('HOME', None)
        else:
            os.environ['HOME'] = saved_home
        shutil.rmtree(scratch, ignore_errors=True)
    return out


def enum_preferences(tier):
    """Every ordered selection of 1-3 mechanisms as the client's preference list, against servers that reject
    everything, accept late, or answer ERROR in between."""
    names = ['EXTERNAL', 'DBUS_COOKIE_SHA1', 'ANONYMOUS']
    i = 0
    for r in (1, 2, 3):
        for pref in itertools.permutations(names, r):
            for seq in (['RJ', 'RJ', 'RJ', 'RJ'], ['RJ', 'ER', 'RJ'], ['ER', 'RJ', 'OKh'], ['RJ', 'OKh'], ['OKh']):
                for unix in (False, True, 'instance'):
                    yield {'seq': seq, 'unix': unix, 'split': SPLITS[i % 3], 'pref': list(pref)}
                    i += 1


def enum_near(tier):
    i = 0
    for x in sorted(NEAR) + sorted(WHITEBOX):
        for pre in ([], ['RJ'], ['OKh'], ['RJ', 'RJ'], ['RJ', 'Dc']):
            for fol in ([], ['OKh'], ['RJ']):
                for unix in (False, True):
                    yield {'seq': pre + [x] + fol, 'unix': unix, 'split': SPLITS[i % 3]}
                    i += 1


def enum_handshake(tier):
    mechs = ['EXTERNAL', 'DBUS_COOKIE_SHA1', 'ANONYMOUS']
    for r in (1, 2, 3):
        for acc in itertools.combinations(mechs, r):
            for neg in ('AGREE_UNIX_FD', 'ERROR'):
                for unix in (True, False, 'instance'):
                    for ext in ('ok', 'data'):
                        yield {'accept': list(acc), 'neg': neg, 'unix': unix, 'external': ext, 'nonce': 'n1'}
                        if 'DBUS_COOKIE_SHA1' in acc and ext == 'ok':
                            # the server proposes a cookie this client does not hold: the client gives that mechanism
                            # up cleanly and the handshake goes on with what is left
                            for ck in ('unknown-id', 'no-keyring'):
                                yield {'accept': list(acc), 'neg': neg, 'unix': unix, 'external': ext, 'nonce': 'n1',
                                       'cookie': ck}


def classify_handshake(case):
    return True, ['unix' if case['unix'] else 'tcp', 'neg_' + case['neg'], '+'.join(case['accept']),
                  'cookie_' + case.get('cookie', 'ok')] + (
        ['keyring_' + ('wanted_line_inside' if case['external'] == 'data' else 'wanted_line_last') +
         ('_no_final_newline' if case['neg'] == 'ERROR' else '')]
        if 'DBUS_COOKIE_SHA1' in case['accept'] and case.get('cookie', 'ok') != 'no-keyring' else []) + (
        ['keyring_dir_mode_%o' % [0o700, 0o2700, 0o1700, 0o500][(len(set(case['accept'])) + (case['neg'] == 'ERROR') +
                                                                 2 * (case['external'] == 'data')) % 4]]
        if 'DBUS_COOKIE_SHA1' in case['accept'] and case.get('cookie', 'ok') != 'no-keyring' else [])


SUBCHECKS = [
    Subcheck('lines_enum', run_lines, classify_lines, enumerate=enum_lines, shards={'quick': 8, 'thorough': 16},
             exhaustive_note='all sequences of length 1..4 (quick) / 1..5 (thorough) over 12 abstract server lines x '
                             '{UNIX, non-UNIX} transport'),
    Subcheck('lines_random', run_lines, classify_lines, strategy=lambda tier: random_lines(tier),
             n={'quick': 300, 'thorough': 3000}),
    Subcheck('preferences', run_lines, classify_lines, enumerate=enum_preferences, shards={'quick': 2, 'thorough': 2},
             exhaustive_note='all 15 ordered selections of 1-3 mechanisms as the configured preference list x 5 server '
                             'behaviours x 2 transport kinds'),
    Subcheck('lines_near', run_lines, classify_lines, enumerate=enum_near, shards={'quick': 4, 'thorough': 4},
             exhaustive_note='10 near-commands (foreign bytes inside a command word, glued suffixes, client-side words) and '
                             'every non-protocol word the authenticators would dispatch on by name x 5 prefixes x 3 '
                             'continuations x 2 transport kinds: all are outside the protocol'),
    Subcheck('handshake', run_handshake, classify_handshake, enumerate=enum_handshake,
             shards={'quick': 2, 'thorough': 2},
             exhaustive_note='7 non-empty subsets of accepted mechanisms x 2 answers to NEGOTIATE_UNIX_FD x 2 transport '
                             'kinds x 2 EXTERNAL server styles, plus cookie challenges the client cannot answer (unknown '
                             'cookie id, no keyring)'),
]
