"""C09 -- connecting always concludes; a lost connection fails pending work once (DESIGN.md section 3, C09)."""
import itertools
import os

from hypothesis import strategies as st

from .. import refcodec as R
from .. import simnet as N
from ..core import Disc, Subcheck, exc_detail, exc_key

PROPERTY_ID = 'C09'
LEVEL = 'fault_enumeration'
RULE = ('loss histories also leave library-issued calls in flight (lib_call: delMatch, requestBusName, releaseBusName, getNameOwner, addMatch, getRemoteObject). connect: client.connect(MemoryReactorClock, address) for address lists of 1-4 unix:/tcp:/nonce-tcp: entries with '
        'every subset marked unreachable (the harness answers clientConnectionFailed or builds the protocol); on the '
        'first reachable entry a conforming server script (OK, [AGREE_UNIX_FD], Hello reply) is cut at EVERY byte index '
        '(crash point = transport closed after that many server bytes), plus the scripts "REJECTED until the mechanisms '
        'are exhausted", "Hello answered with an error", "garbage line"; exhaustive over crash points per configuration. '
        'oracle: at quiescence (transport closed, virtual clock dry) the connect Deferred fired exactly once - with a '
        'connection whose busName is set iff the whole script was delivered, else with a failure; endpoints were tried in '
        'listed order and none after the first reachable one. loss: an established connection with 0-4 calls in flight '
        '(some with deadlines), proxies obtained with explicit interface objects / known names / introspection (incl. '
        'two proxies for the same object), disconnect callbacks on the connection and on proxies (some cancelled again), signal subscriptions on live '
        'proxies (acknowledged by the bus or still unanswered), calls whose Deferred the caller cancelled, deadlines '
        'spelled None / 0 / 0.0 / positive; '
        'the transport is lost after EVERY prefix of the generated history; then late replies are delivered and the '
        'clock is run dry; oracle: every outstanding call errbacks exactly once with the loss reason, no delayed call '
        'remains, every registered not-cancelled callback ran exactly once, nothing fires afterwards. reentrant: 1-4 '
        'calls in flight, 0-3 connection callbacks and 0-3 proxy callbacks, where each errback / callback performs one '
        'action while it is being notified (issue a call with or without deadline, cancel itself, cancel another '
        'callback); every pair of actions in small scenarios (exhaustive) and random larger ones; oracle: connectionLost '
        'does not raise, every call outstanding at the loss fails once with the reason during the notification, every '
        'callback nobody cancelled before its turn ran exactly once, and nothing - in particular no call issued during '
        'the notification - completes after connectionLost returned (clock run dry). Non-trivial = '
        'a crash point strictly between connection and Hello reply, or >=1 call with a timer, or >=1 proxy callback, or '
        'a re-entrant action; distinct = distinct case JSON. Loss histories include calls answered synchronously (inside '
        'transport.write) and a close requested by the application before the transport reports the loss. Address lists mix '
        'unix:path= and unix:abstract= entries in both orders. Loss histories contain replies nobody waits for (stale_reply) and end '
        'with ConnectionLost, ConnectionDone or ConnectionAborted by turns; every second disconnect callback is a bound method of '
        'an object nothing else refers to.')
ASSUMPTIONS = ['proxies are kept strongly referenced by the harness (the registry is weak by design)',
               'user callbacks neither raise nor re-enter callRemote']

GUID = b'0123456789abcdef0123456789abcdef'
KINDS = {'unix': 'unix:path=/run/verif-%d', 'tcp': 'tcp:host=h%d,port=%d', 'nonce': 'nonce-tcp:host=n%d,port=%d,noncefile=/n',
         'unix-guid': 'unix:path=/run/verif-%d,guid=0123456789abcdef0123456789abcdef',
         'unix-abstract': 'unix:abstract=verif-%d'}
SKIPPED = ['launchd:env=DBUS_LAUNCHD_SESSION_BUS_SOCKET', 'autolaunch:', 'foo:bar=1']      # kinds the client cannot use


def _address(entries, decorate=False):
    out = []
    for i, k in enumerate(entries):
        if k in ('unix', 'unix-guid', 'unix-abstract'):
            out.append(KINDS[k] % i)
        else:
            out.append(KINDS[k] % (i, 1000 + i))
        if decorate and i % 2 == 0:
            out.append(SKIPPED[i % len(SKIPPED)])      # unusable entries in between are skipped, not counted
    return ';'.join(out)


def _script(kind, variant):
    """Server bytes in answer to the client, as a list of (wait_for_client_substring, bytes)."""
    if variant == 'ideal':
        steps = [(b'AUTH EXTERNAL', b'OK ' + GUID + b'\r\n')]
        if kind == 'unix':
            steps.append((b'NEGOTIATE_UNIX_FD', b'AGREE_UNIX_FD\r\n'))
        steps.append((b'BEGIN', 'HELLO_REPLY'))
        return steps
    if variant == 'later-mechanism':
        # a bus that lets this peer in only anonymously and, on a UNIX socket, declines to pass descriptors: the connection
        # is as good as any
        steps = [(b'AUTH EXTERNAL', b'REJECTED DBUS_COOKIE_SHA1 ANONYMOUS\r\n'),
                 (b'AUTH DBUS_COOKIE_SHA1', b'REJECTED ANONYMOUS\r\n')]
        steps.append((b'AUTH ANONYMOUS', b'OK ' + GUID + b'\r\n'))
        if kind == 'unix':
            steps.append((b'NEGOTIATE_UNIX_FD', b'ERROR\r\n'))
        steps.append((b'BEGIN', 'HELLO_REPLY'))
        return steps
    if variant == 'rejected':
        return [(b'AUTH EXTERNAL', b'REJECTED\r\n'), (b'AUTH DBUS_COOKIE_SHA1', b'REJECTED\r\n'),
                (b'AUTH ANONYMOUS', b'REJECTED\r\n')]
    if variant == 'rejected-list':
        # a bus that accepts EXTERNAL only and does not like this peer: every refusal names that one mechanism
        return [(b'AUTH EXTERNAL', b'REJECTED EXTERNAL\r\n'), (b'AUTH DBUS_COOKIE_SHA1', b'REJECTED EXTERNAL\r\n'),
                (b'AUTH ANONYMOUS', b'REJECTED EXTERNAL\r\n')]
    if variant == 'hello-error':
        steps = [(b'AUTH EXTERNAL', b'OK ' + GUID + b'\r\n')]
        if kind == 'unix':
            steps.append((b'NEGOTIATE_UNIX_FD', b'AGREE_UNIX_FD\r\n'))
        steps.append((b'BEGIN', 'HELLO_ERROR'))
        return steps
    if variant == 'garbage':
        return [(b'AUTH EXTERNAL', b'HTTP/1.1 400 Bad Request\r\n')]
    raise ValueError(variant)


def run_connect(case):
    from twisted.internet.error import ConnectionRefusedError
    from twisted.internet.testing import MemoryReactorClock
    from twisted.python.failure import Failure
    from txdbus import client as C
    saved = C.reactor
    reactor = MemoryReactorClock()
    C.reactor = reactor
    out = []
    try:
        entries = case['entries']
        reach = case['reachable']
        results = []
        addr = _address(entries, case.get('decorate', False))
        via = case.get('via', 'explicit')
        envkey = {'session': 'DBUS_SESSION_BUS_ADDRESS', 'system': 'DBUS_SYSTEM_BUS_ADDRESS'}.get(via)
        saved_env = os.environ.get(envkey) if envkey else None
        try:
            if envkey:
                # the documented shorthands: the address list comes from the environment
                os.environ[envkey] = addr
            d = C.connect(reactor, addr if not envkey else via)
        except Exception as e:
            return [Disc(exc_key(e, 'connect.raises'), exc_detail(e))]
        finally:
            if envkey:
                if saved_env is None:
                    os.environ.pop(envkey, None)
                else:
                    os.environ[envkey] = saved_env
        if not hasattr(d, 'addBoth'):
            return [Disc('connect.returns-no-deferred', 'connect() returned %r' % (d,))]
        d.addBoth(results.append)
        attempts = []
        seen_unix = seen_tcp = 0
        conn_proto = None
        kind = None
        for step in range(len(entries) + 1):
            new = None
            if len(reactor.unixClients) > seen_unix:
                a = reactor.unixClients[seen_unix]
                seen_unix += 1
                new = ('unix', a[0], a[1])
            elif len(reactor.tcpClients) > seen_tcp:
                a = reactor.tcpClients[seen_tcp]
                seen_tcp += 1
                new = ('tcp', a[0], a[2])
            if new is None:
                break
            idx = len(attempts)
            attempts.append(new[:2])
            if idx >= len(entries):
                break
            if reach[idx]:
                kind = 'unix' if entries[idx].startswith('unix') else 'tcp'
                conn_proto = new[2].buildProtocol(None)
                t = N.FakeUnixTransport() if kind == 'unix' else N.FakeTransport()
                conn_proto.makeConnection(t)
                break
            # an address can be unreachable in many ways; not all of them are ConnectError subclasses
            from twisted.internet import error as TE
            kinds = [ConnectionRefusedError, TE.DNSLookupError, TE.TimeoutError, TE.NoRouteError, TE.ConnectError,
                     TE.ConnectingCancelledError, OSError]
            exc_cls = kinds[(case.get('fail', 0) + idx) % len(kinds)]
            try:
                exc = exc_cls('unreachable') if exc_cls is not TE.ConnectingCancelledError else exc_cls(None)
            except Exception:
                exc = ConnectionRefusedError()
            new[2].clientConnectionFailed(reactor.connectors[idx], Failure(exc))
        # expected order of attempts: listed order up to and including the first reachable one
        first = reach.index(True) if True in reach else None
        want_n = len(entries) if first is None else first + 1
        want = [('unix', ('\0verif-%d' if entries[i] == 'unix-abstract' else '/run/verif-%d') % i) if entries[i].startswith('unix')
                else ('tcp', ('h%d' if entries[i] == 'tcp' else 'n%d') % i)
                for i in range(want_n)]
        if attempts != want:
            out.append(Disc('connect.endpoint-order', 'attempted %r, expected %r' % (attempts, want)))
        established_expected = False
        if conn_proto is not None:
            steps = _script(kind, case['variant'])
            budget = case['crash']          # number of server bytes delivered before the transport dies (None = all)
            sent = 0
            t = conn_proto.transport
            written = b''
            complete = True
            for waitfor, data in steps:
                written += t.take()
                if waitfor not in written:
                    complete = False
                    break
                if data in ('HELLO_REPLY', 'HELLO_ERROR'):
                    raw = written.split(b'BEGIN\r\n', 1)[1]
                    try:
                        hello = R.decode_message(raw)
                    except R.RefError as e:
                        out.append(Disc('connect.no-hello', '%s %r' % (e, raw)))
                        complete = False
                        break
                    if data == 'HELLO_REPLY':
                        data = R.encode_message(2, 1, {5: hello['serial'], 6: ':1.7'}, 's', [':1.7'])
                    else:
                        data = R.encode_message(3, 1, {5: hello['serial'], 4: 'org.freedesktop.DBus.Error.Failed',
                                                       6: ':1.7'}, 's', ['no'])
                if budget is not None and sent + len(data) > budget:
                    part = data[:budget - sent]
                    if part:
                        N.deliver(conn_proto, part)
                    sent = budget
                    complete = False
                    break
                N.deliver(conn_proto, data)
                sent += len(data)
                if t.disconnected:
                    break
            established_expected = case['variant'] in ('ideal', 'later-mechanism') and \
                case['crash'] is None
            if established_expected and not complete:
                out.append(Disc('connect.script-not-followed', 'client wrote %r' % written))
            if case['variant'] == 'hello-error' and complete and not results:
                out.append(Disc('connect.hello-error-does-not-fail-the-deferred',
                                'Hello was answered with an error reply; the connect Deferred has not fired'))
            if case['variant'] in ('rejected', 'rejected-list') and case['crash'] is None and not results:
                # every mechanism was refused (or the client stopped offering): authentication is refused, and that
                # concludes the attempt - whether or not the server ever hangs up
                out.append(Disc('connect.refused-but-deferred-waits-for-the-server-to-hang-up:%s' % case['variant'],
                                'client wrote %r and then neither closed nor failed the connect Deferred' % written))
            # the transport dies now (crash point / server hangs up) unless the client already closed it
            if not t.disconnected and not established_expected:
                N.close(conn_proto, N.lost_reason())
        # quiescence: nothing else can ever happen
        reactor.advance(3600)
        if len(results) == 0:
            out.append(Disc('connect.deferred-never-fires:%s' % _phase(case), 'entries=%r reachable=%r variant=%s crash=%r' % (
                entries, reach, case['variant'], case['crash'])))
        elif len(results) > 1:
            out.append(Disc('connect.deferred-fired-twice', repr(results)))
        else:
            r = results[0]
            ok = isinstance(r, C.DBusClientConnection)
            if ok != established_expected:
                out.append(Disc('connect.outcome:%s' % _phase(case), 'expected %s, got %r' % (
                    'connection' if established_expected else 'failure', r)))
            if ok and r.busName != ':1.7':
                out.append(Disc('connect.busname', repr(r.busName)))
        pending = [dc for dc in reactor.getDelayedCalls()]
        if pending:
            out.append(Disc('connect.timer-left', repr(pending)))
    except Exception as e:
        out.append(Disc(exc_key(e, 'connect.exception'), exc_detail(e)))
    finally:
        C.reactor = saved
    return out


def _phase(case):
    if True not in case['reachable']:
        return 'unreachable'
    if case['variant'] != 'ideal':
        return case['variant']
    c, tot = case['crash'], case.get('total')
    if c is None:
        return 'complete'
    ok_len = len(b'OK ' + GUID + b'\r\n')
    if c == 0:
        return 'before-any-byte'
    if c < ok_len:
        return 'inside-ok'
    if c == ok_len:
        return 'after-ok'
    return 'before-hello-reply-complete'


def _total(kind):
    n = len(b'OK ' + GUID + b'\r\n')
    if kind == 'unix':
        n += len(b'AGREE_UNIX_FD\r\n')
    n += len(R.encode_message(2, 1, {5: 1, 6: ':1.7'}, 's', [':1.7']))
    return n


def enum_connect(tier):
    lists = [['unix'], ['tcp'], ['nonce'], ['unix', 'tcp'], ['tcp', 'unix', 'nonce'], ['nonce', 'tcp', 'unix', 'tcp'],
             ['unix-guid', 'tcp'], ['unix-abstract', 'unix'],
             # the forms of one transport mixed in one list, each form before and after the other (what one entry said must
             # not colour the next)
             ['unix', 'unix-abstract'], ['unix-guid', 'unix-abstract', 'tcp'], ['tcp', 'unix', 'unix-abstract', 'unix'],
             ['nonce', 'tcp'], ['unix-abstract', 'unix-abstract']]
    if tier == 'thorough':
        lists += [list(p) for p in itertools.product(['unix', 'tcp', 'nonce'], repeat=3)]
    seen = set()
    for entries in lists:
        for reach in itertools.product([False, True], repeat=len(entries)):
            reach = list(reach)
            if True not in reach:
                yield {'entries': entries, 'reachable': reach, 'variant': 'ideal', 'crash': None}
                yield {'entries': entries, 'reachable': reach, 'variant': 'ideal', 'crash': None, 'decorate': True}
                for fail in range(1, 7):
                    yield {'entries': entries, 'reachable': reach, 'variant': 'ideal', 'crash': None, 'fail': fail}
                continue
            first = reach.index(True)
            kind = 'unix' if entries[first].startswith('unix') else 'tcp'
            total = _total(kind)
            for variant in ('rejected', 'rejected-list', 'hello-error', 'garbage', 'later-mechanism'):
                yield {'entries': entries, 'reachable': reach, 'variant': variant, 'crash': None}
            # crash points: only once per (kind, position of first reachable) -- the walk before it is independent
            key = (kind, tuple(entries[:first + 1]))
            yield {'entries': entries, 'reachable': reach, 'variant': 'ideal', 'crash': None, 'total': total}
            yield {'entries': entries, 'reachable': reach, 'variant': 'ideal', 'crash': None, 'total': total, 'decorate': True}
            for via in ('session', 'system'):
                yield {'entries': entries, 'reachable': reach, 'variant': 'ideal', 'crash': None, 'total': total, 'via': via}
            if first > 0:
                for fail in range(1, 7):      # the ways the earlier addresses fail
                    yield {'entries': entries, 'reachable': reach, 'variant': 'ideal', 'crash': None, 'total': total, 'fail': fail}
            if key in seen:
                continue
            seen.add(key)
            for crash in range(0, total):
                yield {'entries': entries, 'reachable': reach, 'variant': 'ideal', 'crash': crash, 'total': total}


def classify_connect(case):
    ph = _phase(case)
    labels = [ph, 'n=%d' % len(case['entries'])]
    nt = ph in ('inside-ok', 'after-ok', 'before-hello-reply-complete', 'rejected', 'rejected-list', 'hello-error', 'garbage', 'later-mechanism') or \
        (len(case['entries']) > 1)
    return nt, labels


# --------------------------------------------------------------------------
# loss of an established connection

INTROSPECT_XML = '''<!DOCTYPE node PUBLIC "-//freedesktop//DTD D-BUS Object Introspection 1.0//EN"
"http://www.freedesktop.org/standards/dbus/1.0/introspect.dtd">
<node name="/obj">
  <interface name="org.verif.Intro">
    <method name="Echo"><arg direction="in" type="s"/><arg direction="out" type="s"/></method>
    <signal name="Sig"><arg type="i"/></signal>
  </interface>
</node>'''


class _Watcher:
    def __init__(self, fn):
        self.fn = fn

    def on_lost(self, who, reason):
        return self.fn(who, reason)


def _run_loss(case, lose_at):
    from txdbus import interface as I
    saved_known = dict(I.DBusInterface.knownInterfaces)
    try:
        rig = N.ClientRig(unix=False)
    except N.RigFailure as e:
        return [Disc('loss.establish-failed', str(e))]
    out = []
    calls = []          # dicts: serial, results, done(bool), timeout
    conn_cbs = []       # dicts: fn, active, hits
    proxies = []        # dicts: obj, cbs:[{fn, active, hits}]
    pending_intro = []  # (serial, slot)
    try:
        I.DBusInterface('org.verif.Known', I.Method('Echo', 's', 's'), I.Signal('Sig', 'i'))
        explicit = I.DBusInterface('org.verif.Explicit', I.Method('Echo', 's', 's'), I.Signal('Sig', 'i'), noRegister=True)
        rig.sent_messages()

        closing = []

        def do(op):
            k = op[0]
            if k in ('call', 'call_sync', 'call_noreply', 'lib_call') and closing:
                return False    # nobody issues calls on a connection they asked to be closed
            if k == 'close_req':
                # disconnect() was called; the transport has not closed yet
                if not closing:
                    closing.append(True)
                    rig.transport.linger = True
                    rig.conn.disconnect()
            elif k == 'call_sync':
                # answered by a peer in the same process while transport.write() is still on the stack
                c = {'results': [], 'done': True, 'timeout': op[1]}

                def answer_at_once(data):
                    rig.transport.on_write = None
                    m = R.decode_message(data)
                    N.deliver(rig.conn, R.encode_variant(m['serial'], 2, 905, {5: m['serial']}, 's', ['sync']))
                rig.transport.on_write = answer_at_once
                try:
                    d = rig.conn.callRemote('/o', 'M', interface='a.b', destination='c.d', timeout=op[1])
                finally:
                    rig.transport.on_write = None
                d.addBoth(c['results'].append)
                c['d'] = d
                sent = [m for kk, m in rig.sent_messages() if kk == 'msg']
                c['serial'] = sent[0]['serial']
                calls.append(c)
            elif k == 'lib_call':
                # calls the library issues on the application's behalf inside its own operations (RemoveMatch for
                # delMatch, RequestName, ReleaseName, GetNameOwner, AddMatch, Introspect): the Deferred the application
                # holds is an outstanding call like any other
                which = op[1] % 6
                if which == 0:
                    got = []
                    rig.conn.addMatch(lambda m: None, interface='org.verif.Known', member='Sig').addBoth(got.append)
                    sent = [m for kk, m in rig.sent_messages() if kk == 'msg']
                    N.deliver(rig.conn, R.encode_message(2, 907, {5: sent[0]['serial']}))
                    if len(got) != 1 or not isinstance(got[0], int):
                        out.append(Disc('loss.addMatch-result', repr(got)))
                        return
                    d = rig.conn.delMatch(got[0])
                elif which == 1:
                    d = rig.conn.requestBusName('org.verif.Mine')
                elif which == 2:
                    d = rig.conn.releaseBusName('org.verif.Mine')
                elif which == 3:
                    d = rig.conn.getNameOwner('org.verif.Peer')
                elif which == 4:
                    d = rig.conn.addMatch(lambda m: None, interface='org.verif.Known', member='Sig2')
                else:
                    d = rig.conn.getRemoteObject('org.verif.Peer', '/pending')
                c = {'results': [], 'done': False, 'timeout': None, 'deadline': None, 'lib': which}
                d.addBoth(c['results'].append)
                sent = [m for kk, m in rig.sent_messages() if kk == 'msg']
                if len(sent) != 1:
                    out.append(Disc('loss.library-call-wrote', 'operation %d wrote %d messages' % (which, len(sent))))
                    return
                c['serial'] = sent[0]['serial']
                calls.append(c)
            elif k == 'call':
                c = {'results': [], 'done': False, 'timeout': op[1]}
                d = rig.conn.callRemote('/o', 'M', interface='a.b', destination='c.d', timeout=op[1])
                d.addBoth(c['results'].append)
                c['d'] = d
                sent = [m for kk, m in rig.sent_messages() if kk == 'msg']
                c['serial'] = sent[0]['serial']
                calls.append(c)
            elif k == 'reply':
                live = [c for c in calls if not c['done']]
                if live:
                    c = live[op[1] % len(live)]
                    c['done'] = True
                    N.deliver(rig.conn, R.encode_variant(c['serial'], 2, 900, {5: c['serial']}))
            elif k == 'stale_reply':
                # a reply nobody is waiting for: to a call that already concluded (late, duplicate) or to no call at all
                gone = [c for c in calls if c['done']]
                serial = gone[op[1] % len(gone)]['serial'] if gone else 0x7fff0001 + op[1]
                N.deliver(rig.conn, R.encode_variant(op[1], 2, 906, {5: serial}, 's', ['stale']))
            elif k == 'error_reply':
                live = [c for c in calls if not c['done']]
                if live:
                    c = live[op[1] % len(live)]
                    c['done'] = True
                    body = ('s', ['failed']) if op[1] % 2 else ('', [])
                    N.deliver(rig.conn, R.encode_variant(c['serial'] + 1, 3, 903, {5: c['serial'], 4: 'org.verif.Error.E'}, *body))
            elif k == 'call_noreply':
                # fire and forget, with a (pointless but legal) deadline: it concludes at once and leaves nothing behind
                r = []
                rig.conn.callRemote('/o', 'Notify', interface='a.b', destination='c.d', expectReply=False,
                                    timeout=op[1]).addBoth(r.append)
                rig.sent_messages()
                if r != [None]:
                    out.append(Disc('loss.no-reply-call-result', repr(r)))
            elif k == 'cancel_call':
                # the caller gives up on a pending call itself (Deferred.cancel()): the call is over for the caller, and
                # whatever the library still keeps for it must go away with the connection like everything else
                live = [c for c in calls if not c['done'] and c.get('d') is not None]
                if live:
                    c = live[op[1] % len(live)]
                    c['done'] = True
                    c['cancelled'] = True
                    c['d'].cancel()
            elif k == 'conn_cb':
                cb = {'hits': [], 'active': True}
                cb['fn'] = lambda conn, reason, cb=cb, rv=[None, True, 'done'][len(conn_cbs) % 3]: cb['hits'].append((conn, reason)) or rv   # the return value is ignored
                if len(conn_cbs) % 2 == 1:
                    # registered as a bound method of an object nothing else refers to (it cannot be cancelled later:
                    # keeping the method around would keep the object alive)
                    rig.conn.notifyOnDisconnect(_Watcher(cb['fn']).on_lost)
                    cb['fn'] = None
                else:
                    rig.conn.notifyOnDisconnect(cb['fn'])
                conn_cbs.append(cb)
            elif k == 'conn_cb_cancel':
                live = [c for c in conn_cbs if c['active'] and c['fn'] is not None]
                if live:
                    c = live[op[1] % len(live)]
                    rig.conn.cancelNotifyOnDisconnect(c['fn'])
                    c['active'] = False
            elif k == 'proxy':
                mode = op[1]
                slot = {'obj': None, 'cbs': [], 'mode': mode, 'error': None}
                if mode == 'explicit':
                    d = rig.conn.getRemoteObject('org.verif.Peer', op[2], explicit)
                elif mode == 'explicit-list':
                    d = rig.conn.getRemoteObject('org.verif.Peer', op[2], [explicit, 'org.verif.Known'])
                elif mode == 'known':
                    d = rig.conn.getRemoteObject('org.verif.Peer', op[2], 'org.verif.Known')
                elif mode == 'introspect':
                    d = rig.conn.getRemoteObject('org.verif.Peer', op[2])
                else:   # a list naming an interface that needs introspection
                    d = rig.conn.getRemoteObject('org.verif.Peer', op[2], ['org.verif.Intro'])
                res = []
                d.addBoth(res.append)
                slot['res'] = res
                sent = [m for kk, m in rig.sent_messages() if kk == 'msg']
                if sent:       # the Introspect call: answered at once (introspection is not the subject here)
                    N.deliver(rig.conn, R.encode_message(2, 901, {5: sent[0]['serial']}, 's', [INTROSPECT_XML]))
                if len(res) == 1 and hasattr(res[0], 'notifyOnDisconnect') and hasattr(res[0], 'callRemote'):
                    slot['obj'] = res[0]
                    proxies.append(slot)
                else:
                    out.append(Disc('loss.getRemoteObject-failed:%s' % mode, repr(res)))
            elif k == 'proxy_cb':
                if proxies:
                    p = proxies[op[1] % len(proxies)]
                    cb = {'hits': [], 'active': True}
                    cb['fn'] = lambda obj, reason, cb=cb, rv=[True, None, 1][len(p['cbs']) % 3]: cb['hits'].append((obj, reason)) or rv
                    p['obj'].notifyOnDisconnect(cb['fn'])
                    p['cbs'].append(cb)
            elif k == 'proxy_signal':
                # a signal subscription on a live proxy, acknowledged by the bus (or still unanswered)
                if proxies:
                    p = proxies[op[1] % len(proxies)]
                    got = []
                    p['obj'].notifyOnSignal('Sig', lambda *a: None).addBoth(got.append)
                    sent = [m for kk, m in rig.sent_messages() if kk == 'msg']
                    if sent and op[1] % 3:
                        N.deliver(rig.conn, R.encode_message(2, 904, {5: sent[0]['serial']}))
                    elif sent:
                        c = {'results': got, 'done': False, 'timeout': None, 'serial': sent[0]['serial'], 'deadline': None}
                        calls.append(c)      # the AddMatch call itself is outstanding
            elif k == 'proxy_cb_cancel':
                live = [(p, c) for p in proxies for c in p['cbs'] if c['active']]
                if live:
                    p, c = live[op[1] % len(live)]
                    p['obj'].cancelNotifyOnDisconnect(c['fn'])
                    c['active'] = False
            elif k == 'advance':
                rig.clock.advance(op[1])
                for c in calls:
                    if not c['done'] and c['timeout'] and c.get('t0') is not None:
                        pass

        # issue times for deadlines
        for i, op in enumerate(case['ops'][:lose_at]):
            if op[0] == 'call':
                t0 = rig.clock.seconds()
            skipped = do(op) is False
            if op[0] == 'call' and not skipped:
                calls[-1]['deadline'] = (t0 + op[1]) if op[1] else None
            if op[0] == 'advance':
                now = rig.clock.seconds()
                for c in calls:
                    if not c['done'] and c.get('deadline') is not None and c['deadline'] <= now:
                        c['done'] = True   # timed out before the loss: not outstanding any more
            if out:
                return out
        # ---- the transport dies here
        outstanding = [c for c in calls if not c['done']]
        before = {id(c): len(c['results']) for c in calls}
        reason = N.lost_reason(len(case['ops']) + lose_at)
        try:
            N.close(rig.conn, reason)
        except Exception as e:
            return [Disc(exc_key(e, 'loss.connectionLost-raises'), exc_detail(e))]
        # afterwards: late replies, clock run dry
        for c in calls:
            N_raw = R.encode_message(2, 902, {5: c['serial']})
            try:
                rig.conn.dataReceived(N_raw)
            except Exception as e:
                out.append(Disc(exc_key(e, 'loss.late-reply-raises'), exc_detail(e)))
                break
        if rig.clock.getDelayedCalls():
            out.append(Disc('loss.timer-survives', 'delayed calls after loss: %r' % rig.clock.getDelayedCalls()))
        try:
            rig.clock.advance(100000)
        except Exception as e:
            out.append(Disc(exc_key(e, 'loss.late-timer-raises'), exc_detail(e)))
        for c in outstanding:
            r = c['results']
            if len(r) != before[id(c)] + 1:
                out.append(Disc('loss.outstanding-call-%s' % ('not-failed' if len(r) == before[id(c)] else 'fired-twice'),
                                'call serial %d (timeout %r): results %r' % (c['serial'], c['timeout'], r)))
            elif c.get('lib') == 5:
                # getRemoteObject is not a call but an operation built on one: it reports its Introspect call's failure
                # in its own words (IntrospectionFailed naming the reason); what is required is that it fails
                from twisted.python.failure import Failure
                if not isinstance(r[-1], Failure):
                    out.append(Disc('loss.pending-getRemoteObject-succeeds', repr(r[-1])))
            elif r[-1] is not reason:
                out.append(Disc('loss.call-wrong-reason', repr(r[-1])))
        for c in calls:
            if c not in outstanding and len(c['results']) != 1:
                out.append(Disc('loss.completed-call-fired-again', repr(c['results'])))
        for cb in conn_cbs:
            want = 1 if cb['active'] else 0
            if len(cb['hits']) != want:
                out.append(Disc('loss.connection-callback-%s' % ('missed' if want else 'cancelled-but-ran') if len(cb['hits']) < 2
                                else 'loss.connection-callback-twice', 'ran %d times' % len(cb['hits'])))
            elif want and (cb['hits'][0][0] is not rig.conn or cb['hits'][0][1] is not reason):
                out.append(Disc('loss.connection-callback-args', repr(cb['hits'])))
        for p in proxies:
            for cb in p['cbs']:
                want = 1 if cb['active'] else 0
                if len(cb['hits']) != want:
                    out.append(Disc('loss.proxy-callback-%s:%s' % (
                        ('missed' if want else 'cancelled-but-ran') if len(cb['hits']) < 2 else 'twice', p['mode']),
                        'proxy obtained by %s: callback ran %d times' % (p['mode'], len(cb['hits']))))
                elif want and (cb['hits'][0][0] is not p['obj'] or cb['hits'][0][1] is not reason):
                    out.append(Disc('loss.proxy-callback-args', repr(cb['hits'])))
    except Exception as e:
        out.append(Disc(exc_key(e, 'loss.exception'), exc_detail(e)))
    finally:
        rig.close_rig()
        I.DBusInterface.knownInterfaces.clear()
        I.DBusInterface.knownInterfaces.update(saved_known)
    return out


def run_loss(case):
    found = {}
    inner = 0
    for lose_at in range(len(case['ops']) + 1):
        inner += 1
        for d in _run_loss(case, lose_at):
            found.setdefault(d.key, Disc(d.key, 'loss after %d of %d operations: %s' % (lose_at, len(case['ops']), d.detail)))
    return list(found.values()), inner


def classify_loss(case):
    labels = []
    ops = case['ops']
    if any(o[0] == 'call' and o[1] for o in ops):
        labels.append('call_with_timer')
    if any(o[0] == 'proxy_cb' for o in ops):
        labels.append('proxy_callback')
    for o in ops:
        if o[0] == 'proxy':
            labels.append('proxy_' + o[1])
    paths = [o[2] for o in ops if o[0] == 'proxy']
    if len(paths) != len(set(paths)):
        labels.append('two_proxies_same_object')
    if any(o[0].endswith('_cancel') for o in ops):
        labels.append('cancel')
    if any(o[0] == 'proxy_signal' for o in ops) and any(o[0] == 'proxy' for o in ops):
        labels.append('signal_subscription')
    if any(o[0] == 'cancel_call' for o in ops) and any(o[0] == 'call' for o in ops):
        labels.append('caller_cancels_call')
    if any(o[0] == 'call' and o[1] is not None and not o[1] for o in ops):
        labels.append('timeout_zero')
    if any(o[0] == 'call_sync' for o in ops):
        labels.append('synchronous_reply')
    if any(o[0] == 'stale_reply' for o in ops):
        labels.append('reply_nobody_waits_for')
    if any(o[0] == 'close_req' for o in ops):
        labels.append('close_requested_first')
    for o in ops:
        if o[0] == 'lib_call':
            labels.append('library_issued_call_' + ['delMatch', 'requestBusName', 'releaseBusName', 'getNameOwner', 'addMatch',
                                                    'introspect'][o[1] % 6])
    return ('call_with_timer' in labels or 'proxy_callback' in labels), sorted(set(labels))


@st.composite
def loss_case(draw, tier):
    ops = []
    n = draw(st.integers(1, 12))
    ncalls = 0
    for _ in range(n):
        k = draw(st.sampled_from(['call', 'call', 'reply', 'error_reply', 'conn_cb', 'conn_cb_cancel', 'proxy', 'proxy', 'proxy_cb',
                                  'proxy_cb', 'proxy_cb_cancel', 'proxy_signal', 'advance', 'cancel_call', 'call_noreply',
                                  'call_sync', 'close_req' if draw(st.integers(0, 2)) == 0 else 'call_sync', 'stale_reply',
                                  'lib_call']))
        if k == 'call':
            if ncalls >= 4:
                continue
            ncalls += 1
            ops.append(['call', draw(st.sampled_from([None, 5, 20, 1, 0, 0.0]))])
        elif k == 'proxy':
            ops.append(['proxy', draw(st.sampled_from(['explicit', 'explicit-list', 'known', 'introspect', 'introspect',
                                                       'list-introspect'])),
                        draw(st.sampled_from(['/obj', '/obj', '/other']))])
        elif k == 'advance':
            ops.append(['advance', draw(st.sampled_from([1, 4, 6, 30]))])
        elif k in ('call_noreply', 'call_sync'):
            ops.append([k, draw(st.sampled_from([None, 5, 0, 30]))])
        elif k in ('reply', 'error_reply', 'conn_cb_cancel', 'proxy_cb', 'proxy_cb_cancel', 'proxy_signal', 'cancel_call', 'stale_reply',
                   'lib_call'):
            ops.append([k, draw(st.integers(0, 5))])
        else:
            ops.append([k])
    return {'ops': ops}


def enum_loss(tier):
    """A fixed family covering every proxy mode with callbacks, for determinism."""
    for mode in ('explicit', 'explicit-list', 'known', 'introspect', 'list-introspect'):
        yield {'ops': [['proxy', mode, '/obj'], ['proxy_cb', 0], ['call', 5], ['conn_cb']]}
        yield {'ops': [['proxy', mode, '/obj'], ['proxy', mode, '/obj'], ['proxy_cb', 0], ['proxy_cb', 1],
                       ['proxy_cb', 0], ['proxy_cb_cancel', 1]]}
    yield {'ops': [['call', None], ['call', 5], ['call', 20], ['call', 1], ['advance', 4], ['reply', 0], ['conn_cb'],
                   ['conn_cb'], ['conn_cb_cancel', 0]]}
    # replies nobody waits for (unsolicited, late after a timeout, duplicate), then more calls, then the loss
    yield {'ops': [['stale_reply', 0], ['call', 30], ['call', None], ['conn_cb']]}
    yield {'ops': [['call', 1], ['advance', 4], ['stale_reply', 0], ['call', 30], ['call', None]]}
    yield {'ops': [['call', None], ['reply', 0], ['stale_reply', 0], ['call', 5], ['call', None], ['conn_cb']]}
    # calls issued inside the library's own operations, in flight at the loss
    for which in range(6):
        yield {'ops': [['call', None], ['lib_call', which], ['conn_cb'], ['call', 5]]}
    # fire-and-forget calls with and without a deadline next to ordinary ones
    yield {'ops': [['call_noreply', 5], ['call', 10], ['call_noreply', None], ['call_noreply', 30], ['conn_cb']]}
    # the caller cancels pending calls (with and without deadline) before the connection goes down
    yield {'ops': [['call', 10], ['call', 10], ['call', None], ['cancel_call', 0], ['advance', 1], ['cancel_call', 1],
                   ['conn_cb'], ['call', 0]]}
    # a live proxy holding signal subscriptions (acknowledged and not) when the connection goes down
    for mode in ('explicit', 'known', 'introspect'):
        yield {'ops': [['proxy', mode, '/obj'], ['proxy_signal', 1], ['proxy_signal', 2], ['proxy_signal', 0], ['proxy_cb', 0],
                       ['call', 5], ['call', None], ['conn_cb']]}
    # calls completed by method returns and by error replies (with and without body, with and without deadline)
    # while others stay in flight and a proxy waits for the disconnect
    for first in (['error_reply', 0], ['error_reply', 1], ['reply', 0]):
        for t in (None, 5):
            yield {'ops': [['call', t], ['call', 7], ['call', None], ['proxy', 'explicit', '/obj'], ['proxy_cb', 0], first,
                           ['conn_cb']]}



# ---------------------------------------------------------------------------
# user code that calls back into the connection while it is being told about the loss

ACTS = [['none'], ['call', None], ['call', 5], ['cancel_self'], ['cancel_conn', 0], ['cancel_conn', 1], ['cancel_conn', 2],
        ['cancel_proxy', 0], ['cancel_proxy', 1]]


def run_reentrant(case):
    from txdbus import interface as I
    try:
        rig = N.ClientRig(unix=False)
    except N.RigFailure as e:
        return [Disc('reentrant.establish-failed', str(e))]
    out = []
    try:
        explicit = I.DBusInterface('org.verif.Explicit', I.Method('Echo', 's', 's'), noRegister=True)
        rig.sent_messages()
        calls, conn_cbs, proxy_cbs, inner = [], [], [], []
        state = {'phase': 'before'}
        proxy = None
        if case['proxy_cbs']:
            res = []
            rig.conn.getRemoteObject('org.verif.Peer', '/obj', explicit).addBoth(res.append)
            if len(res) != 1 or not hasattr(res[0], 'notifyOnDisconnect'):
                return [Disc('reentrant.getRemoteObject-failed', repr(res))]
            proxy = res[0]

        def act(a, me):
            k = a[0]
            if k == 'call':
                rec = {'results': [], 'during': None}
                d = rig.conn.callRemote('/o', 'Again', interface='a.b', destination='c.d', timeout=a[1])
                if not hasattr(d, 'addBoth'):
                    out.append(Disc('reentrant.inner-call-no-deferred', repr(d)))
                    return
                d.addBoth(rec['results'].append)
                inner.append(rec)
            elif k == 'cancel_self':
                if me is not None and me['kind'] == 'conn' and not me['cancelled']:
                    me['cancelled'] = True
                    rig.conn.cancelNotifyOnDisconnect(me['fn'])
                elif me is not None and me['kind'] == 'proxy' and not me['cancelled']:
                    me['cancelled'] = True
                    proxy.cancelNotifyOnDisconnect(me['fn'])
            elif k == 'cancel_conn':
                if conn_cbs:
                    t = conn_cbs[a[1] % len(conn_cbs)]
                    if not t['cancelled']:
                        t['cancelled'] = True
                        t['cancelled_before_run'] = not t['hits']
                        rig.conn.cancelNotifyOnDisconnect(t['fn'])
            elif k == 'cancel_proxy':
                if proxy_cbs:
                    t = proxy_cbs[a[1] % len(proxy_cbs)]
                    if not t['cancelled']:
                        t['cancelled'] = True
                        t['cancelled_before_run'] = not t['hits']
                        proxy.cancelNotifyOnDisconnect(t['fn'])

        for spec in case['conn_cbs']:
            cb = {'kind': 'conn', 'hits': [], 'cancelled': False, 'cancelled_before_run': False, 'act': spec}

            def fn(conn, reason, cb=cb):
                cb['hits'].append(state['phase'])
                act(cb['act'], cb)
            cb['fn'] = fn
            rig.conn.notifyOnDisconnect(fn)
            conn_cbs.append(cb)
        for spec in case['proxy_cbs']:
            cb = {'kind': 'proxy', 'hits': [], 'cancelled': False, 'cancelled_before_run': False, 'act': spec}

            def fn(obj, reason, cb=cb):
                cb['hits'].append(state['phase'])
                act(cb['act'], cb)
            cb['fn'] = fn
            proxy.notifyOnDisconnect(fn)
            proxy_cbs.append(cb)
        for spec in case['calls']:
            c = {'results': [], 'phases': [], 'act': spec['act']}
            d = rig.conn.callRemote('/o', 'M', interface='a.b', destination='c.d', timeout=spec['timeout'])

            def eb(f, c=c):
                c['results'].append(f)
                c['phases'].append(state['phase'])
                act(c['act'], None)
            d.addBoth(eb)
            calls.append(c)
        rig.sent_messages()
        reason = N.lost_reason()
        state['phase'] = 'during'
        try:
            N.close(rig.conn, reason)
        except Exception as e:
            out.append(Disc(exc_key(e, 'reentrant.connectionLost-raises'), exc_detail(e)))
        state['phase'] = 'after'
        snapshot = [len(r['results']) for r in inner]
        try:
            rig.clock.advance(100000)
        except Exception as e:
            out.append(Disc(exc_key(e, 'reentrant.late-timer-raises'), exc_detail(e)))
        for i, c in enumerate(calls):
            if len(c['results']) != 1:
                out.append(Disc('reentrant.outstanding-call-%s' % ('not-failed' if not c['results'] else 'fired-twice'),
                                'call %d of %r: results %r' % (i, case, c['results'])))
            elif c['results'][0] is not reason or c['phases'] != ['during']:
                out.append(Disc('reentrant.call-wrong-reason-or-moment', '%r in phase %r' % (c['results'][0], c['phases'])))
        for kind, cbs in (('connection', conn_cbs), ('proxy', proxy_cbs)):
            for i, cb in enumerate(cbs):
                n = len(cb['hits'])
                if 'after' in cb['hits']:
                    out.append(Disc('reentrant.%s-callback-after-loss' % kind, repr(cb['hits'])))
                elif n > 1:
                    out.append(Disc('reentrant.%s-callback-twice' % kind, 'callback %d of %r ran %d times' % (i, case, n)))
                elif n == 0 and not cb['cancelled_before_run']:
                    # cancelled by nobody before its turn: it was registered when the connection went down
                    out.append(Disc('reentrant.%s-callback-missed' % kind, 'callback %d of %r never ran' % (i, case)))
        for i, r in enumerate(inner):
            if len(r['results']) > 1:
                out.append(Disc('reentrant.inner-call-fired-twice', repr(r['results'])))
            if i >= len(snapshot):
                out.append(Disc('reentrant.fires-after-loss', 'user code ran (and issued a call) after connectionLost had returned'))
                continue
            if len(r['results']) != snapshot[i]:
                out.append(Disc('reentrant.fires-after-loss', 'a call issued during the notification completed after '
                                                                'connectionLost had returned: %r' % (r['results'],)))
            for x in r['results']:
                if not hasattr(x, 'check'):
                    out.append(Disc('reentrant.inner-call-succeeded', repr(x)))
    except Exception as e:
        out.append(Disc(exc_key(e, 'reentrant.exception'), exc_detail(e)))
    finally:
        rig.close_rig()
    return out


def classify_reentrant(case):
    acts = [c['act'][0] for c in case['calls']] + [a[0] for a in case['conn_cbs']] + [a[0] for a in case['proxy_cbs']]
    labels = sorted(set('act_' + a for a in acts if a != 'none'))
    if any(c['act'][0] == 'call' for c in case['calls']):
        labels.append('errback_issues_call')
    if any(a[0] == 'call' for a in case['conn_cbs'] + case['proxy_cbs']):
        labels.append('callback_issues_call')
    if any(a[0].startswith('cancel') for a in case['conn_cbs'] + case['proxy_cbs']):
        labels.append('callback_cancels_callback')
    return any(a != 'none' for a in acts), labels


def enum_reentrant(tier):
    """Small scenarios, complete: two calls, two connection callbacks, two proxy callbacks, every action pair in one group."""
    for a in ACTS:
        for b in ACTS:
            yield {'calls': [{'timeout': 5, 'act': a}, {'timeout': None, 'act': b}], 'conn_cbs': [['none'], ['none']],
                   'proxy_cbs': [['none']]}
            yield {'calls': [{'timeout': 7, 'act': ['none']}], 'conn_cbs': [a, b, ['none']], 'proxy_cbs': [['none']]}
            yield {'calls': [{'timeout': None, 'act': ['none']}], 'conn_cbs': [['none']], 'proxy_cbs': [a, b, ['none']]}


@st.composite
def reentrant_case(draw, tier):
    act = st.sampled_from(ACTS)
    return {'calls': [{'timeout': draw(st.sampled_from([None, 3, 9, 0])), 'act': draw(act)}
                      for _ in range(draw(st.integers(1, 4)))],
            'conn_cbs': [draw(act) for _ in range(draw(st.integers(0, 3)))],
            'proxy_cbs': [draw(act) for _ in range(draw(st.integers(0, 3)))]}


SUBCHECKS = [
    Subcheck('connect', run_connect, classify_connect, enumerate=enum_connect, shards={'quick': 4, 'thorough': 8},
             exhaustive_note='address lists x every reachability subset x {ideal, rejected, hello-error, garbage} scripts; '
                             'for the ideal script every byte-index crash point of the server stream'),
    Subcheck('loss', run_loss, classify_loss, strategy=lambda tier: loss_case(tier),
             n={'quick': 120, 'thorough': 1200},
             exhaustive_note='per generated history: the transport is lost after every prefix'),
    Subcheck('reentrant', run_reentrant, classify_reentrant, strategy=lambda tier: reentrant_case(tier),
             enumerate=enum_reentrant, n={'quick': 150, 'thorough': 1500},
             exhaustive_note='two calls / three connection callbacks / three proxy callbacks x every pair of re-entrant '
                             'actions (issue a call, cancel itself, cancel another callback)'),
    Subcheck('loss_fixed', run_loss, classify_loss, enumerate=enum_loss, shards={'quick': 1, 'thorough': 1},
             exhaustive_note='fixed family: each proxy mode x callbacks x loss after every prefix'),
]
