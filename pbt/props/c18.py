"""C18 -- name and path validators accept exactly the D-Bus grammar (DESIGN.md section 3, C18)."""
from hypothesis import strategies as st

from .. import refcodec as R
from .. import strategies as S
from ..core import Disc, Subcheck, exc_detail, exc_key

PROPERTY_ID = 'C18'
LEVEL = 'exploration'
RULE = ('strings: every string of length 0..5 (quick) / 0..6 (thorough) over the 10-symbol alphabet a 1 _ . - : / e-acute '
        'space newline (one representative per character class; the newline because `$` in a regular expression also '
        'matches before a trailing one), enumerated exhaustively and given to all five validators; '
        'random strings to length 300 over a wider alphabet; names built by construction at the 254/255/256 byte '
        'boundary; oracle: hand-written recognisers of the spec grammar (refcodec), validator returns <=> recogniser '
        'accepts, every rejection is MarshallingError, and the verdicts are the same when every validator is asked '
        'again in the opposite order (no dependence on what was validated before). ctor: each message class x each name-carrying argument x '
        'valid / invalid / empty value: if the message is built, every name in its encoded header is grammar-valid. '
        'Non-trivial = the string (or the string with one character deleted) is accepted by at least one recogniser; '
        'distinct = distinct string / constructor case. lookalikes also inserts every ASCII punctuation character and formatting '
        'snippets (%s, %d, {}, backslash ...) into valid names: verdict and kind of rejection are judged. ctor_same: one string given '
        'for two name-carrying arguments of a constructor. words: Python keywords / builtins and the reserved path and names with '
        'their neighbours, as names and as elements of names.')
ASSUMPTIONS = ['refcodec recognisers are the trusted statement of the grammar (self-tested on every run)']

ALPHABET = ['a', '1', '_', '.', '-', ':', '/', 'é', ' ', '\n']
KINDS = [
    ('path', 'validateObjectPath', R.is_object_path),
    ('iface', 'validateInterfaceName', R.is_interface_name),
    ('error', 'validateErrorName', R.is_error_name),
    ('bus', 'validateBusName', R.is_bus_name),
    ('member', 'validateMemberName', R.is_member_name),
]


def enum_strings(tier):
    maxlen = 5 if tier == 'quick' else 6
    level = ['']
    yield {'s': ''}
    for _ in range(maxlen):
        nxt = []
        for s in level:
            for ch in ALPHABET:
                t = s + ch
                nxt.append(t)
                yield {'s': t}
        level = nxt


def _why(kind, s):
    """Harness-side label of the first grammar rule an invalid string breaks (for bucketing only)."""
    if s == '':
        return 'empty'
    try:
        if len(s.encode('utf-8')) > 255:
            return 'too-long'
    except UnicodeEncodeError:
        return 'unencodable'
    if kind == 'path':
        if s[0] != '/':
            return 'no-leading-slash'
        if s != '/' and s.endswith('/'):
            return 'trailing-slash'
        if '//' in s:
            return 'empty-element'
        return 'bad-char'
    if kind == 'member':
        if '0' <= s[0] <= '9':
            return 'digit-first'
        return 'bad-char'
    body = s
    if kind == 'bus':
        if s[0] == ':':
            body = s[1:]
        elif ':' in s:
            return 'colon-not-first'
    allowed = set('abcdefghijklmnopqrstuvwxyzABCDEFGHIJKLMNOPQRSTUVWXYZ0123456789_.') | (
        set('-') if kind == 'bus' else set())
    if any(ch not in allowed for ch in body):
        return 'bad-char'
    els = body.split('.')
    if len(els) < 2:
        return 'single-element'
    if any(e == '' for e in els):
        if body.endswith('.'):
            return 'trailing-dot' if not body.startswith('.') and '..' not in body else 'empty-element'
        return 'empty-element'
    if not (kind == 'bus' and s[0] == ':') and any('0' <= e[0] <= '9' for e in els):
        return 'digit-first-element'
    return 'other'


def run_string(case):
    from txdbus import marshal as M
    from txdbus.error import MarshallingError
    s = case['s']
    out = []
    for kind, fname, rec in KINDS:
        expect = rec(s)
        try:
            getattr(M, fname)(s)
            got = True
        except MarshallingError:
            got = False
        except Exception as e:
            out.append(Disc('val.%s.wrong-exception:%s' % (kind, type(e).__name__),
                            '%s(%r) raised %s' % (fname, s, exc_detail(e))))
            continue
        if got and not expect:
            out.append(Disc('val.%s.accepts-invalid:%s' % (kind, _why(kind, s)), '%s accepted %r' % (fname, s)))
        elif expect and not got:
            out.append(Disc('val.%s.rejects-valid' % kind, '%s rejected %r' % (fname, s)))
    if out:
        return out
    # the verdict on a string in one role does not depend on what was asked before: the same string is now put to every
    # validator again, in the opposite order (a name valid as a bus name has just been accepted there, for instance)
    for kind, fname, rec in reversed(KINDS):
        try:
            getattr(M, fname)(s)
            got = True
        except Exception:
            got = False
        if got != rec(s):
            out.append(Disc('val.%s.verdict-depends-on-history' % kind, '%s(%r) answered %s on the second asking, after the '
                            'other validators had seen the same string' % (fname, s, 'valid' if got else 'invalid')))
    return out


def classify_string(case):
    s = case['s']
    labels = []
    acc = [k for k, _, rec in KINDS if rec(s)]
    for k in acc:
        labels.append('valid_' + k)
    nt = bool(acc)
    if not nt and len(s) <= 40:
        for i in range(len(s)):
            t = s[:i] + s[i + 1:]
            if any(rec(t) for _, _, rec in KINDS):
                nt = True
                labels.append('one_deletion_from_valid')
                break
    if len(s) > 200:
        labels.append('len>200')
    return nt, labels


_wide = st.text(alphabet=st.sampled_from(list('abzAZ_09.-:/ \x00\n\r\té\U0001F600')), max_size=300)


@st.composite
def boundary_name(draw):
    """Names of exactly 254/255/256 bytes in one- and two-element shapes, plus random long ones."""
    kind = draw(st.sampled_from(['member', 'iface', 'bus', 'unique', 'path', 'wide', 'mutated', 'mutated', 'affixed', 'affixed']))
    n = draw(st.sampled_from([253, 254, 255, 256, 257]))
    if kind == 'affixed':
        return {'s': draw(affixed_name(draw(st.sampled_from(['path', 'member', 'iface', 'error', 'bus']))))}
    if kind == 'member':
        return {'s': 'm' * n}
    if kind == 'iface':
        k = draw(st.integers(1, 10))
        return {'s': 'a' * k + '.' + 'b' * (n - k - 1)}
    if kind == 'bus':
        k = draw(st.integers(1, 10))
        return {'s': 'a' * k + '.' + '-' * (n - k - 1)}
    if kind == 'unique':
        return {'s': ':1.' + '7' * (n - 3)}
    if kind == 'path':
        return {'s': '/' + 'p' * (n - 1)}
    if kind == 'wide':
        return {'s': draw(_wide)}
    base = draw(st.one_of(S.interface_name(), S.bus_name, S.member_name(), S.object_path))
    pos = draw(st.integers(0, len(base)))
    ed = draw(st.sampled_from(['ins', 'del', 'sub']))
    ch = draw(st.sampled_from(list('.:-/1 _aé\n\n\r\t\x00\x0b\u2028')))
    if ed == 'ins':
        s = base[:pos] + ch + base[pos:]
    elif ed == 'del':
        s = base[:pos] + base[pos + 1:]
    else:
        s = base[:pos] + ch + base[pos + 1:]
    return {'s': s}


@st.composite
def affixed_name(draw, kind):
    """A valid name of the given kind with one foreign character put in front or behind (what anchored regular
    expressions, strip() calls and C-string habits get wrong)."""
    valid = {'path': S.object_path, 'member': S.member_name(), 'iface': S.interface_name(),
             'error': S.error_name(), 'bus': S.bus_name}[kind]
    base = draw(valid)
    ch = draw(st.sampled_from(['\n', '\n', '\r', '\r\n', '\t', ' ', '\x00', '\x0b', '\u2028', '.', '/', ':', '-'] + LOOKALIKES[:6]))
    return base + ch if draw(st.integers(0, 3)) else ch + base


# every ASCII punctuation character, and snippets that mean something to string formatting / regular expressions /
# escaping when a name is quoted in an error text or compiled into a pattern
ASCII_META = [c for c in map(chr, range(0x21, 0x7f)) if not c.isalnum()] + [
    '%s', '%d', '%(a)s', '%%', '{}', '{0}', '{a}', '\\n', '\\', '$', '.*', '[a]', '\x7f']

LOOKALIKES = ['\u017f', '\u212a', '\u0130', '\u0131',      # case-fold onto s, k, i, i (re.IGNORECASE lets them through)
              '\uff21', '\uff41', '\uff3f',                 # fullwidth A, a, low line
              '\u00b2', '\u0663', '\uff11',                 # superscript two, Arabic-Indic three, fullwidth one (str.isdigit())
              '\u2024', '\uff0e', '\u2215', '\uff0f', '\uff1a',  # look-alikes of . / :
              '\u00ad', '\u200b', '\ufeff', '\u0301']       # soft hyphen, zero-width space, BOM, combining accent


def enum_words(tier):
    """Names spelled with words that mean something to the HOST language or to the bus - Python keywords and builtins, the
    reserved path / interface / bus name and their neighbours: the DBus grammar knows none of them."""
    import keyword
    words = sorted(set(keyword.kwlist + getattr(keyword, 'softkwlist', []) + ['None', 'True', 'False', 'print', 'self', 'type',
                                                                              'id', 'object', '__init__', '__', '_', 'Local']))
    seen = set()
    for w in words:
        for t in (w, 'a.' + w, w + '.b', 'a.' + w + '.' + w, '/' + w, '/a/' + w + '/b', ':1.' + w, 'x-' + w + '.' + w):
            if t not in seen:
                seen.add(t)
                yield {'s': t}
    for t in ('/org/freedesktop/DBus/Local', '/org/freedesktop/DBus/LocalCache', '/org/freedesktop/DBus/Local/child',
              '/org/freedesktop/DBus/Loca', '/org/freedesktop/DBus', 'org.freedesktop.DBus', 'org.freedesktop.DBus.Local',
              'org.freedesktop.DBusMenu', 'org.freedesktop.DBus.GLib.TestService', 'org.freedesktop.DBus.Error.Failed',
              'org.freedesktop.DBus.Properties', 'org.freedesktop'):
        if t not in seen:
            seen.add(t)
            yield {'s': t}


def enum_lookalikes(tier):
    """Valid names of every kind with one character replaced by, or extended with, a non-ASCII character that some
    Unicode-aware operation (case folding, isdigit, isalnum, NFKC) would take for an ASCII one - or with an ASCII
    punctuation character / formatting snippet (most give an invalid name; the verdict AND the kind of rejection - a
    marshalling error, not whatever building the error text raises - are judged)."""
    bases = {'path': ['/a/b1', '/org/x_y'], 'member': ['Ping', 'm_2'], 'iface': ['a.b', 'org.verif.If_1'],
             'error': ['a.b.E', 'org.verif.Error.X9'], 'bus': ['c.d-e', ':1.42', 'org.verif.S0']}
    seen = set()
    for kind, names in bases.items():
        for base in names:
            for ch in LOOKALIKES + ASCII_META:
                for pos in (0, 1, len(base) // 2, len(base) - 1, len(base)):
                    for t in (base[:pos] + ch + base[pos:], base[:pos] + ch + base[pos + 1:]):
                        if t not in seen:
                            seen.add(t)
                            yield {'s': t}


# --------------------------------------------------------------------------
# constructor side

CTOR_ARGS = {
    'MethodCall': ['path', 'member', 'interface', 'destination'],
    'MethodReturn': ['destination'],
    'Error': ['error_name', 'destination'],
    'Signal': ['path', 'member', 'interface', 'destination'],
}
ARG_KIND = {'path': 'path', 'member': 'member', 'interface': 'iface', 'destination': 'bus', 'error_name': 'error'}
FIELD_OF = {'path': 1, 'interface': 2, 'member': 3, 'error_name': 4, 'destination': 6}
REC = {k: rec for k, _, rec in KINDS}


@st.composite
def ctor_case(draw):
    cls = draw(st.sampled_from(sorted(CTOR_ARGS)))
    arg = draw(st.sampled_from(CTOR_ARGS[cls]))
    mode = draw(st.sampled_from(['valid', 'invalid', 'invalid', 'affixed', 'empty', 'short']))
    kind = ARG_KIND[arg]
    valid = {'path': S.object_path, 'member': S.member_name(), 'iface': S.interface_name(),
             'error': S.error_name(), 'bus': S.bus_name}[kind]
    if mode == 'valid':
        v = draw(valid)
    elif mode == 'empty':
        v = ''
    elif mode == 'short':
        v = draw(st.text(alphabet=st.sampled_from(ALPHABET), max_size=5))
    elif mode == 'affixed':
        v = draw(affixed_name(kind))
    else:
        v = draw(boundary_name())['s']
    return {'cls': cls, 'arg': arg, 'value': v, 'others': draw(st.integers(0, 3))}


def run_ctor(case):
    from txdbus import message as MSG
    from txdbus.error import MarshallingError
    cls, arg, v = case['cls'], case['arg'], case['value']
    kw = {arg: v}
    # the arguments NOT under test are present with valid values, or left out where they are optional ('others'):
    # a check on one argument must not depend on which other arguments were given
    others = case.get('others', 0)
    try:
        if cls == 'MethodCall':
            args = dict(path='/p', member='M', interface='a.b' if others % 2 == 0 else None,
                        destination='c.d' if others < 2 else None)
            args.update(kw)
            m = MSG.MethodCallMessage(args['path'], args['member'], interface=args['interface'],
                                      destination=args['destination'])
        elif cls == 'MethodReturn':
            extra = {} if others % 2 == 0 else dict(signature='s', body=['x'])
            m = MSG.MethodReturnMessage(5, destination=v, **extra)
        elif cls == 'Error':
            args = dict(error_name='a.b.Err', destination='c.d' if others < 2 else None)
            args.update(kw)
            extra = {} if others % 2 == 0 else dict(sender=':1.7')      # only this class takes a sender
            m = MSG.ErrorMessage(args['error_name'], 5, destination=args['destination'], **extra)
        else:
            args = dict(path='/p', member='M', interface='a.b', destination='c.d' if others < 2 else None)
            args.update(kw)
            m = MSG.SignalMessage(args['path'], args['member'], args['interface'],
                                  destination=args['destination'])
    except MarshallingError:
        if REC[ARG_KIND[arg]](v) and not (arg == 'path' and v == '/org/freedesktop/DBus/Local'):
            return [Disc('ctor.rejects-valid:%s.%s' % (cls, arg), 'value %r' % v)]
        return []
    except Exception as e:
        if not REC[ARG_KIND[arg]](v):
            return [Disc('ctor.wrong-exception:%s.%s:%s' % (cls, arg, type(e).__name__),
                         'value %r: %s' % (v, exc_detail(e)))]
        return [Disc(exc_key(e, 'ctor.valid-raised'), exc_detail(e))]
    # built: every name in the encoded header must be valid
    try:
        d = R.decode_message(m.rawMessage, strict=False)
    except R.RefError as e:
        return [Disc('ctor.unparseable-output:%s.%s' % (cls, arg), 'value %r: %s' % (v, e))]
    out = []
    for a, code in FIELD_OF.items():
        if code in d['fields'] and not REC[ARG_KIND[a]](d['fields'][code]):
            out.append(Disc('ctor.invalid-name-emitted:%s.%s:%s' % (cls, a, _why(ARG_KIND[a], d['fields'][code])),
                            '%s built with %s=%r; header field %d = %r' % (cls, arg, v, code, d['fields'][code])))
    return out


def classify_ctor(case):
    ok = REC[ARG_KIND[case['arg']]](case['value'])
    return True, [case['cls'], 'valid' if ok else ('empty' if case['value'] == '' else 'invalid')]


SAME_VALUES = ['com.my-company.Player', ':1.42', 'a.b', 'a.b.C', 'Ping', 'm_2', '/a/b', '/', 'org.verif.If_1', 'a-b.c', ':1.x-y',
               '', 'a', '1.2']


def enum_ctor_same(tier):
    """The SAME string given for two name-carrying arguments of one constructor (a service that names its main interface
    after its bus name; a member called like the path's last element): each argument is judged by its own grammar."""
    for cls in sorted(CTOR_ARGS):
        args = CTOR_ARGS[cls]
        for i, a in enumerate(args):
            for b in args[i + 1:]:
                for v in SAME_VALUES:
                    yield {'cls': cls, 'a': a, 'b': b, 'value': v}


def run_ctor_same(case):
    from txdbus import message as MSG
    from txdbus.error import MarshallingError
    cls, a, b, v = case['cls'], case['a'], case['b'], case['value']
    args = dict(path='/p', member='M', interface='a.b', destination='c.d', error_name='a.b.Err')
    args[a] = v
    args[b] = v
    ok_both = REC[ARG_KIND[a]](v) and REC[ARG_KIND[b]](v) and not ('path' in (a, b) and v == '/org/freedesktop/DBus/Local')
    try:
        if cls == 'MethodCall':
            m = MSG.MethodCallMessage(args['path'], args['member'], interface=args['interface'], destination=args['destination'])
        elif cls == 'Error':
            m = MSG.ErrorMessage(args['error_name'], 5, destination=args['destination'])
        elif cls == 'Signal':
            m = MSG.SignalMessage(args['path'], args['member'], args['interface'], destination=args['destination'])
        else:
            return []
    except MarshallingError:
        if ok_both:
            return [Disc('ctor_same.rejects-valid:%s.%s+%s' % (cls, a, b), 'value %r' % v)]
        return []
    except Exception as e:
        return [Disc('ctor_same.wrong-exception:%s.%s+%s:%s' % (cls, a, b, type(e).__name__), 'value %r: %s' % (v, exc_detail(e)))]
    out = []
    try:
        d = R.decode_message(m.rawMessage, strict=False)
    except R.RefError as e:
        return [Disc('ctor_same.unparseable-output:%s' % cls, 'value %r: %s' % (v, e))]
    for x, code in FIELD_OF.items():
        if code in d['fields'] and not REC[ARG_KIND[x]](d['fields'][code]):
            out.append(Disc('ctor_same.invalid-name-emitted:%s.%s(=%s):%s' % (cls, x, b if x == a else a, _why(ARG_KIND[x], d['fields'][code])),
                            '%s built with %s = %s = %r; header field %d = %r' % (cls, a, b, v, code, d['fields'][code])))
    return out


def classify_ctor_same(case):
    va, vb = REC[ARG_KIND[case['a']]](case['value']), REC[ARG_KIND[case['b']]](case['value'])
    return va != vb, [case['cls'], 'valid_for_both' if va and vb else ('valid_for_one' if va or vb else 'valid_for_neither')]


SUBCHECKS = [
    Subcheck('strings', run_string, classify_string, enumerate=enum_strings,
             shards={'quick': 4, 'thorough': 16},
             exhaustive_note='every string of length 0..5 (quick) / 0..6 (thorough) over a 10-class alphabet x 5 validators'),
    Subcheck('lookalikes', run_string, classify_string, enumerate=enum_lookalikes, shards={'quick': 2, 'thorough': 2},
             exhaustive_note='11 valid names x 19 non-ASCII look-alike characters (case-folding, digit-like, fullwidth, '
                             'separator look-alikes, invisible) inserted or substituted at 5 positions x 5 validators'),
    Subcheck('words', run_string, classify_string, enumerate=enum_words, shards={'quick': 1, 'thorough': 1},
             exhaustive_note='every Python keyword / soft keyword and a dozen builtins, alone and as an element of each kind of name, '
                             'plus the reserved path / names and their neighbours, x 5 validators'),
    Subcheck('long', run_string, classify_string, strategy=lambda tier: boundary_name(),
             n={'quick': 500, 'thorough': 4000}),
    Subcheck('ctor', run_ctor, classify_ctor, strategy=lambda tier: ctor_case(),
             n={'quick': 500, 'thorough': 4000}),
    Subcheck('ctor_same', run_ctor_same, classify_ctor_same, enumerate=enum_ctor_same, shards={'quick': 1, 'thorough': 1},
             exhaustive_note='every constructor x every pair of its name-carrying arguments x 14 strings given for BOTH '
                             '(valid for one grammar, the other, both, neither)'),
]
