"""
Hypothesis strategies shared by the checks.  Every case they build is JSON-able
(see refcodec's tree model); conversion to the Python objects handed to txdbus is
done by `to_py`, driven by a list of drawn "presentation" integers.
"""
import struct

from hypothesis import strategies as st

from . import refcodec as R

INT_CODES = 'ynqiuxt'
BASIC_NO_H = 'ybnqiuxtdsog'

# ---------------------------------------------------------------------------
# signatures


@st.composite
def complete_type(draw, depth=3, allow_h=False, allow_v=True, not_v=False, h_keys=False):
    """One complete type from the grammar, size-biased towards shallow ones.  h_keys: dictionaries may be keyed by
    UNIX_FD (a basic type like the others); used for the TEXT of SIGNATURE values, not for values that are built."""
    leafs = list(BASIC_NO_H) + (['h'] if allow_h else []) + (['v'] if allow_v and not not_v else [])
    if depth <= 0:
        return draw(st.sampled_from(leafs))
    kind = draw(st.sampled_from(['leaf', 'leaf', 'leaf', 'array', 'struct', 'dict']))
    if kind == 'leaf':
        return draw(st.sampled_from(leafs))
    if kind == 'array':
        return 'a' + draw(complete_type(depth - 1, allow_h, allow_v, h_keys=h_keys))
    if kind == 'struct':
        n = draw(st.integers(1, 4))
        return '(' + ''.join(draw(complete_type(depth - 1, allow_h, allow_v, h_keys=h_keys)) for _ in range(n)) + ')'
    k = draw(st.sampled_from(list(BASIC_NO_H) + (['h', 'h'] if h_keys else [])))
    return 'a{' + k + draw(complete_type(depth - 1, allow_h, allow_v, h_keys=h_keys)) + '}'


@st.composite
def limit_type(draw):
    """Types at the spec's nesting limits."""
    leaf = draw(st.sampled_from(['y', 'i', 's', 'x']))
    kind = draw(st.sampled_from(['arr32', 'struct32', 'both']))
    if kind == 'arr32':
        return 'a' * 32 + leaf
    if kind == 'struct32':
        return '(' * 32 + leaf + ')' * 32
    return 'a' * 32 + '(' * 32 + leaf + ')' * 32


@st.composite
def signature(draw, max_types=4, depth=3, allow_h=False, min_types=0, h_keys=False):
    n = draw(st.integers(min_types, max_types))
    types = [draw(complete_type(depth, allow_h, h_keys=h_keys)) for _ in range(n)]
    while len(''.join(types)) > 255:
        types.pop()
    return ''.join(types)


# ---------------------------------------------------------------------------
# leaf values

def _int_values(code):
    lo, hi = R.INT_RANGE[code]
    edge = sorted({lo, hi, 0, 1, lo + 1, hi - 1, min(hi, 255), min(hi, 256),
                   max(lo, -1), min(hi, 0x0a0d), min(hi, 0x0d0a)})
    return st.one_of(st.sampled_from(edge), st.integers(lo, hi))


_plain_text = st.text(
    alphabet=st.one_of(
        st.sampled_from(list('abcXYZ019 _-/.:,\'"=\r\n\\é€😀ÿĀ')),
        st.characters(blacklist_categories=('Cs',), blacklist_characters='\x00'),
    ),
    max_size=12,
)
# strings some text-handling layer is known to mangle: a byte-order mark in front (codecs 'utf-8-sig' strips it), BOM
# elsewhere, non-characters, the last code point, bidi / zero-width / line separators, combining sequences, lone
# controls, text that looks like an escape or a number
_EDGE_TEXT = ['\ufeff', '\ufeffabc', 'a\ufeff', '\ufeff\ufeff', '\ufffe', '\uffff', '\U0010ffff', '\U00010000', '\ud7ff\ue000',
              '\u2028\u2029', '\u200e\u200f\u202e', '\u200b', 'e\u0301', '\x01', '\x7f', '\x1b[0m', '\\x00', '%s%d', '0x10',
              ' lead', 'trail ', '\t', '\r', '\n', '\r\n', "'", '"', 'A' * 255, 'A' * 256]
_text = st.one_of(_plain_text, _plain_text, _plain_text, st.sampled_from(_EDGE_TEXT))

_path_el = st.text(alphabet='abzAZ09_', min_size=1, max_size=4)
object_path = st.one_of(
    st.just('/'),
    st.lists(_path_el, min_size=1, max_size=4).map(lambda els: '/' + '/'.join(els)),
)

_NANS = ['7ff8000000000000', 'fff8000000000000', '7ff0000000000001', '7ff4000000000001',
         '7ff0000000000000', 'fff0000000000000', '8000000000000000', '0000000000000000',
         '0000000000000001', '7fefffffffffffff', '3ff0000000000000', 'bff8000000000000']
double_hex = st.one_of(
    st.sampled_from(_NANS),
    st.floats(allow_nan=False).map(lambda f: struct.pack('>d', f).hex()),
    st.binary(min_size=8, max_size=8).map(lambda b: b.hex()),
)


def hex_to_float(h):
    return struct.unpack('>d', bytes.fromhex(h))[0]


def _is_nan_hex(h):
    f = hex_to_float(h)
    return f != f


@st.composite
def tree_for(draw, t, max_len=4, in_variant=False, vdepth=2):
    """A value tree conforming to the single complete type t."""
    c = t[0]
    if c == 'h':
        return draw(st.integers(3, 70000))
    if c in INT_CODES:
        return draw(_int_values(c))
    if c == 'b':
        return draw(st.booleans())
    if c == 'd':
        return draw(double_hex)
    if c == 's':
        return draw(_text)
    if c == 'o':
        return draw(object_path)
    if c == 'g':
        # the value of a SIGNATURE is text: any valid signature, descriptors and descriptor-keyed dictionaries included
        return draw(signature(max_types=3, depth=2, allow_h=True, h_keys=True))
    if c == 'a':
        et = t[1:]
        if et[0] == '{':
            kt, vt = R.struct_fields(et)
            n = draw(st.integers(0, max_len))
            keys = draw(st.lists(tree_for(kt), min_size=n, max_size=n,
                                 unique_by=lambda k: _key_id(kt, k)))
            if kt == 'd':
                keys = [k for k in keys if not _is_nan_hex(k)]
            return [[k, draw(tree_for(vt, max(1, max_len - 1), in_variant, vdepth))] for k in keys]
        n = draw(st.integers(0, max_len))
        return [draw(tree_for(et, max(1, max_len - 1), in_variant, vdepth)) for _ in range(n)]
    if c in '({':
        return [draw(tree_for(ft, max_len, in_variant, vdepth)) for ft in R.struct_fields(t)]
    if c == 'v':
        # encode-side soundness: a variant cannot directly hold a variant, nor any 'h'
        vs = draw(complete_type(depth=vdepth, allow_h=False, allow_v=vdepth > 0, not_v=True))
        return [vs, draw(tree_for(vs, max(1, max_len - 1), True, max(0, vdepth - 1)))]
    raise ValueError(t)


def _key_id(kt, k):
    """Identity of a dict key under Python equality of its normal form."""
    if kt == 'd':
        f = hex_to_float(k)
        if f != f:
            return ('nan', k)
        return ('num', f)  # 0.0 == -0.0
    if kt == 'b':
        return ('b', bool(k))
    return ('v', k)


@st.composite
def decode_side_tree(draw, t, max_len=3, vdepth=2):
    """Like tree_for but variants may hold variants and 'h' (only a decoder
    can meet those: txdbus cannot produce them itself)."""
    c = t[0]
    if c == 'v':
        vs = draw(complete_type(depth=vdepth, allow_h=True, allow_v=True))
        return [vs, draw(decode_side_tree(vs, max(1, max_len - 1), max(0, vdepth - 1)))]
    if c == 'a':
        et = t[1:]
        if et[0] == '{':
            kt, vt = R.struct_fields(et)
            n = draw(st.integers(0, max_len))
            keys = draw(st.lists(tree_for(kt), min_size=n, max_size=n,
                                 unique_by=lambda k: _key_id(kt, k)))
            if kt == 'd':
                keys = [k for k in keys if not _is_nan_hex(k)]
            return [[k, draw(decode_side_tree(vt, max(1, max_len - 1), vdepth))] for k in keys]
        n = draw(st.integers(0, max_len))
        return [draw(decode_side_tree(et, max(1, max_len - 1), vdepth)) for _ in range(n)]
    if c in '({':
        return [draw(decode_side_tree(ft, max_len, vdepth)) for ft in R.struct_fields(t)]
    return draw(tree_for(t))


@st.composite
def big_values(draw):
    """(signature, trees) with lengths that cross the 8-, 16- and (in bytes) 17-bit boundaries: a length
    field mishandled above 255 or 65535 shows only here."""
    kind = draw(st.sampled_from(['s', 's', 'ay', 'as', 'a{us}', 'ai', 'aay', 'v-ay', '(say)', 'g', 'o']))
    n = draw(st.sampled_from([255, 256, 257, 4096, 65535, 65536, 70001]))
    ch = draw(st.sampled_from(['x', 'é', '\r\n']))
    if kind == 's':
        return 's', [ch * n]
    if kind == 'ay':
        return 'ay', [[(i * 7) % 256 for i in range(n)]]
    if kind == 'as':
        m = min(n, 2000)
        return 'as', [['s%d' % i for i in range(m)]]
    if kind == 'a{us}':
        m = min(n, 1500)
        return 'a{us}', [[[i, 'v%d' % i] for i in range(m)]]
    if kind == 'ai':
        m = min(n, 20000)
        return 'ai', [[i - 5 for i in range(m)]]
    if kind == 'aay':
        return 'aay', [[[1] * 300, [], [2] * min(n, 5000)]]
    if kind == 'v-ay':
        return 'v', [['ay', [(i * 3) % 256 for i in range(n)]]]
    if kind == '(say)':
        return '(say)', [[ch * 300, [9] * min(n, 5000)]]
    if kind == 'g':
        return 'g', ['i' * draw(st.sampled_from([254, 255]))]
    return 'o', ['/' + '/'.join(['seg%d' % i for i in range(min(n, 3000) // 6 + 1)])]


@st.composite
def typed_values(draw, max_types=4, depth=3, allow_h=False, min_types=1, limits=False, big=False):
    """(signature, trees)"""
    if big and draw(st.integers(0, 29)) == 0:
        sig, trees = draw(big_values())
        if draw(st.booleans()):
            return 'y' + sig, [7] + trees      # shifts the alignment of what follows
        return sig, trees
    if limits and draw(st.integers(0, 19)) == 0:
        types = [draw(limit_type())]
        max_len = 1
    else:
        n = draw(st.integers(min_types, max_types))
        types = [draw(complete_type(depth, allow_h)) for _ in range(n)]
        max_len = 4
    sig = ''.join(types)
    if len(sig) > 255:
        types = types[:1]
        sig = types[0]
    trees = [draw(tree_for(t, max_len)) for t in types]
    return sig, trees


presentation = st.lists(st.integers(0, 5), min_size=0, max_size=12)

# ---------------------------------------------------------------------------
# trees -> Python objects for txdbus


class TList(list):
    dbusSignature = None


class TTuple(tuple):
    dbusSignature = None


class TDict(dict):
    dbusSignature = None


class OrderedObj:
    """struct presented as an object declaring its field order"""

    def __init__(self, values, sig=None):
        # a field whose value equals an earlier field's is declared by naming that attribute again
        # (dbusOrder = ['lo', 'hi', 'lo']): the order lists positions, not distinct attributes
        names = []
        for i, v in enumerate(values):
            for j in range(i):
                if type(values[j]) is type(v) and isinstance(v, (bool, int, str)) and values[j] == v:
                    names.append(names[j])
                    break
            else:
                names.append('f%d' % i)
                setattr(self, names[-1], v)
        self.dbusOrder = names
        if sig is not None:
            self.dbusSignature = sig


class OrderedSeq(tuple):
    """A record that is a sequence AND declares its field order (a named tuple given a dbusOrder so that it goes on the
    wire in another order than it iterates in): dbusOrder decides, as for any object that has it."""

    def __new__(cls, values, sig=None):
        self = tuple.__new__(cls, list(reversed(values)))
        helper = OrderedObj(values, sig)
        self.__dict__.update(helper.__dict__)
        return self


def _ordered(values, sig=None):
    # every second struct of two or more fields is presented as the sequence flavour
    if len(values) >= 2 and len(values) % 2 == 0:
        return OrderedSeq(values, sig)
    return OrderedObj(values, sig)


def _typed(cls, sig, content):
    sub = type(cls.__name__ + '_' + str(len(sig)), (cls,), {'dbusSignature': sig})
    return sub(content)


class _Pres:
    def __init__(self, pres):
        self.p = pres or [0]
        self.i = 0

    def next(self, n):
        v = self.p[self.i % len(self.p)]
        self.i += 1
        return v % n


def ref_infer(v):
    """Reference rendering of the documented inference rules (wrapper class or
    dbusSignature attribute wins; generic types otherwise; containers by first
    element)."""
    s = getattr(v, 'dbusSignature', None)
    if s is not None:
        return s
    if isinstance(v, bool):
        return 'b'
    if isinstance(v, int):
        return 'i'
    if isinstance(v, float):
        return 'd'
    if isinstance(v, str):
        return 's'
    if isinstance(v, bytearray):
        return 'ay'
    if isinstance(v, list):
        if not v:
            return 'av'
        if all(isinstance(x, type(v[0])) for x in v[1:]):
            return 'a' + ref_infer(v[0])
        return 'av'
    if isinstance(v, tuple):
        return '(' + ''.join(ref_infer(x) for x in v) + ')'
    if isinstance(v, dict):
        if not v:
            return 'a{sv}'
        vals = list(v.values())
        k0 = next(iter(v))
        if all(isinstance(x, type(vals[0])) for x in vals[1:]):
            return 'a{' + ref_infer(k0) + ref_infer(vals[0]) + '}'
        return 'a{' + ref_infer(k0) + 'v}'
    raise TypeError(v)


def naturally_typed(v, t):
    """True when every element of every container in v individually infers to the
    element type of t, so first/last-element inference cannot matter."""
    if t == 'v':
        return True   # element of a container of variants: must only be self-describing
    if getattr(v, 'dbusSignature', None) is not None:
        return v.dbusSignature == t
    try:
        if ref_infer(v) != t:
            return False
    except TypeError:
        return False
    if isinstance(v, bytearray):
        return True
    if isinstance(v, list):
        return all(naturally_typed(x, t[1:]) for x in v)
    if isinstance(v, tuple):
        return all(naturally_typed(x, ft) for x, ft in zip(v, R.struct_fields(t)))
    if isinstance(v, dict):
        kt, vt = R.struct_fields(t[1:])
        return all(naturally_typed(k, kt) and naturally_typed(x, vt) for k, x in v.items())
    return True


def to_py(t, tree, pres, sd=False, marshal_mod=None):
    """Python object to hand to txdbus for `tree` of type t.
    sd: the value must be self-describing (it is the direct content of a variant
    or an element of a naturally-typed container inside one)."""
    if not isinstance(pres, _Pres):
        pres = _Pres(pres)
    if marshal_mod is None:
        from txdbus import marshal as marshal_mod
    m = marshal_mod
    c = t[0]
    wrappers = {'y': m.Byte, 'n': m.Int16, 'q': m.UInt16, 'i': m.Int32, 'u': m.UInt32,
                'x': m.Int64, 't': m.UInt64}
    if c in wrappers:
        if sd and c != 'i':
            return wrappers[c](tree)
        return wrappers[c](tree) if pres.next(4) == 3 else tree
    if c == 'h':
        return tree
    if c == 'b':
        return m.Boolean(1 if tree else 0) if pres.next(5) == 4 else bool(tree)
    if c == 'd':
        return hex_to_float(tree)
    if c == 's':
        return tree
    if c == 'o':
        return m.ObjectPath(tree) if (sd or pres.next(3) == 2) else tree
    if c == 'g':
        return m.Signature(tree) if (sd or pres.next(3) == 2) else tree
    if c == 'v':
        return to_py(tree[0], tree[1], pres, sd=True, marshal_mod=m)
    if c == 'a':
        et = t[1:]
        choice = pres.next(3)
        if et[0] == '{':
            kt, vt = R.struct_fields(et)
            if sd:
                if choice == 0:
                    nat = {to_py(kt, k, pres, True, m): to_py(vt, v, pres, True, m) for k, v in tree}
                    if len(nat) == len(tree) and naturally_typed(nat, t):
                        return nat
                return _typed(TDict, t, {to_py(kt, k, pres, False, m): to_py(vt, v, pres, False, m)
                                          for k, v in tree})
            items = [(to_py(kt, k, pres, False, m), to_py(vt, v, pres, False, m)) for k, v in tree]
            if choice == 0:
                return dict(items)
            if choice == 1:
                return [list(kv) for kv in items]
            return list(items)
        if et == 'y' and choice == 0:
            return bytearray(tree)
        if not sd and et in ('n', 'q', 'i', 'u', 'x', 't') and choice == 0 and tree and all(
                isinstance(x, int) and 0 <= x <= 255 for x in tree):
            # any sequence of small integers will do for an integer array - a bytearray is one (the array type decides
            # the encoding, not the Python type of the container)
            return bytearray(tree)
        if sd:
            if choice == 1:
                nat = [to_py(et, x, pres, True, m) for x in tree]
                if naturally_typed(nat, t):
                    return nat
            return _typed(TList, t, [to_py(et, x, pres, False, m) for x in tree])
        items = [to_py(et, x, pres, False, m) for x in tree]
        return tuple(items) if choice == 2 else items
    if c in '({':
        fts = R.struct_fields(t)
        choice = pres.next(3)
        if sd:
            if choice == 0:
                nat = tuple(to_py(ft, fv, pres, True, m) for ft, fv in zip(fts, tree))
                if naturally_typed(nat, t):
                    return nat
            vals = [to_py(ft, fv, pres, False, m) for ft, fv in zip(fts, tree)]
            if choice == 1:
                return _ordered(vals, sig=t)
            return _typed(TTuple, t, vals)
        vals = [to_py(ft, fv, pres, False, m) for ft, fv in zip(fts, tree)]
        if choice == 0:
            return vals
        if choice == 1:
            return tuple(vals)
        return _ordered(vals)
    raise ValueError(t)


def to_py_list(sig, trees, pres):
    p = _Pres(pres)
    return [to_py(t, tr, p) for t, tr in zip(R.split_inner(sig), trees)]


def normal_forms(sig, trees):
    return [R.normal_form(t, tr) for t, tr in zip(R.split_inner(sig), trees)]


def has_container(sig):
    return any(ch in sig for ch in 'a({v')


def sig_depth(sig):
    d = best = 0
    for ch in sig:
        if ch in 'a({':
            d += 1 if ch != 'a' else 0
        if ch in '({':
            best = max(best, d)
        if ch in ')}':
            d -= 1
    return best + sig.count('a')


# ---------------------------------------------------------------------------
# names

_el_first = 'abzAZ_'
_el_rest = 'abzAZ_09'


@st.composite
def name_element(draw, hyphen=False, max_size=5, digit_first=False):
    first = draw(st.sampled_from(list(_el_first + ('-' if hyphen else '') + ('0189' if digit_first else ''))))
    rest = draw(st.text(alphabet=_el_rest + ('-' if hyphen else ''), max_size=max_size - 1))
    return first + rest


@st.composite
def interface_name(draw):
    n = draw(st.integers(2, 4))
    return '.'.join(draw(name_element()) for _ in range(n))


error_name = interface_name


@st.composite
def member_name(draw):
    return draw(name_element(max_size=8))


@st.composite
def wellknown_bus_name(draw):
    n = draw(st.integers(2, 4))
    return '.'.join(draw(name_element(hyphen=True)) for _ in range(n))


@st.composite
def unique_bus_name(draw):
    n = draw(st.integers(2, 3))
    return ':' + '.'.join(draw(name_element(hyphen=True, digit_first=True)) for _ in range(n))


bus_name = st.one_of(wellknown_bus_name(), unique_bus_name())


# ---------------------------------------------------------------------------
# messages (JSON-able abstract description)

MSG_FIELDS = {   # type -> (required, optional) header fields settable by a sender
    1: (['path', 'member'], ['interface', 'destination', 'sender']),
    2: (['reply_serial'], ['destination', 'sender']),
    3: (['error_name', 'reply_serial'], ['destination', 'sender']),
    4: (['path', 'member', 'interface'], ['destination', 'sender']),
}

_serials = st.one_of(st.sampled_from([1, 2, 0x0a0d, 0x0d0a, 0x0d0a0d0a, 2**32 - 1, 2**31, 255, 256, 0x6c, 0x42]),
                     st.integers(1, 2**32 - 1))


def _field_value(name):
    return {'path': object_path, 'member': member_name(), 'interface': interface_name(),
            'error_name': error_name(), 'reply_serial': _serials, 'destination': bus_name,
            'sender': unique_bus_name()}[name]


@st.composite
def message(draw, mtypes=(1, 2, 3, 4), body_depth=2, allow_h=False, max_types=3, with_sender=True, big=False):
    t = draw(st.sampled_from(list(mtypes)))
    req, opt = MSG_FIELDS[t]
    fields = {}
    for f in req:
        fields[f] = draw(_field_value(f))
    for f in opt:
        if f == 'sender' and not with_sender:
            continue
        if draw(st.booleans()):
            fields[f] = draw(_field_value(f))
    if draw(st.integers(0, 3)) == 0:
        sig, trees = '', []
    else:
        sig, trees = draw(typed_values(max_types=max_types, depth=body_depth, allow_h=allow_h, big=big))
    if big and draw(st.integers(0, 14)) == 0:
        # header strings at the 255-byte limit (header array longer than 255 bytes)
        if 'interface' in fields:
            fields['interface'] = 'a.' + 'b' * 253
        if 'member' in fields:
            fields['member'] = 'm' * 255
        if 'destination' in fields:
            fields['destination'] = 'c.' + 'd' * 253
    no_reply = no_auto = False
    if t == 1:
        no_reply = draw(st.booleans())
        no_auto = draw(st.booleans())
    return {'type': t, 'fields': fields, 'sig': sig, 'trees': trees, 'pres': draw(presentation),
            'no_reply': no_reply, 'no_auto': no_auto, 'serial': draw(_serials)}


def ref_message_bytes(msg, little=True, field_order=None, extra_fields=(), unix_fds=None, fds=None):
    """Reference encoding of an abstract message."""
    f = {R.FIELD_CODE[k]: v for k, v in msg['fields'].items()}
    f.update({R.FIELD_CODE[k]: v for k, v in msg.get('foreign', {}).items()})
    if unix_fds is not None:
        f[9] = unix_fds
    flags = (1 if msg.get('no_reply') else 0) | (2 if msg.get('no_auto') else 0) | msg.get('flag_bits', 0)
    return R.encode_message(msg['type'], msg['serial'], f, msg['sig'], msg['trees'], little, flags,
                            field_order, extra_fields, fds)


def n_header_fields(msg, extra=0):
    return len(msg['fields']) + len(msg.get('foreign', {})) + (1 if msg['sig'] else 0) + extra


FOREIGN_FIELDS = ['path', 'interface', 'member', 'error_name', 'reply_serial']


@st.composite
def wire_only_extras(draw, msg):
    """What a peer may put on the wire that this library's own constructors never write (parse-side only): header
    fields the specification defines but does not require for this message type (any header may carry 'zero or more
    of any optional header fields'), and flag bits beyond NO_REPLY_EXPECTED / NO_AUTO_START.  Sets msg['foreign'] and
    msg['flag_bits'] in place; ref_message_bytes writes them and compare_parsed expects the fields back."""
    if draw(st.integers(0, 3)) == 0:
        own = set(MSG_FIELDS[msg['type']][0]) | set(MSG_FIELDS[msg['type']][1])
        cand = [f for f in FOREIGN_FIELDS if f not in own]
        names = draw(st.lists(st.sampled_from(cand), min_size=1, max_size=3, unique=True))
        msg['foreign'] = {n: draw(_field_value(n)) for n in names}
    if draw(st.integers(0, 2)) == 0:
        msg['flag_bits'] = draw(st.sampled_from([0x4, 0x8, 0x4, 0xfc, 0x80]))
    return msg


def build_txdbus_message(MSG, msg, oobFDs=None):
    """Construct the txdbus message object for an abstract message (sender only where the
    constructor takes it)."""
    f = msg['fields']
    body = to_py_list(msg['sig'], msg['trees'], msg['pres']) if msg['sig'] else None
    sig = msg['sig'] if msg['sig'] else None
    if not msg['sig']:
        # "no body" has several spellings a caller may use; all of them must give a well-formed, body-less message
        sig, body = [(None, None), ('', None), ('', []), (None, [])][msg.get('serial', 0) % 4]
    t = msg['type']
    if t == 1:
        kw = {}
        if msg['no_reply'] or msg['no_auto'] or sum(msg['pres']) % 2:
            kw = dict(expectReply=not msg['no_reply'], autoStart=not msg['no_auto'])
        # else: the documented defaults (reply expected, auto-start allowed) are relied upon
        return MSG.MethodCallMessage(f['path'], f['member'], interface=f.get('interface'),
                                     destination=f.get('destination'), signature=sig, body=body,
                                     oobFDs=oobFDs, **kw)
    if t == 2:
        return MSG.MethodReturnMessage(f['reply_serial'], body=body, destination=f.get('destination'),
                                       signature=sig)
    if t == 3:
        return MSG.ErrorMessage(f['error_name'], f['reply_serial'], destination=f.get('destination'),
                                signature=sig, body=body, sender=f.get('sender'))
    return MSG.SignalMessage(f['path'], f['member'], f['interface'], destination=f.get('destination'),
                             signature=sig, body=body)


def constructible_fields(msg):
    """The header fields a txdbus constructor can set for this message."""
    f = dict(msg['fields'])
    if msg['type'] != 3:
        f.pop('sender', None)
    return f


PARSED_ATTRS = ['path', 'interface', 'member', 'error_name', 'reply_serial', 'destination', 'sender']


def compare_parsed(m, msg, fields=None, prefix='parse'):
    """Compare a txdbus message object obtained from parseMessage with the abstract message.
    Returns list of (keysuffix, detail)."""
    out = []
    fields = dict(msg['fields'], **msg.get('foreign', {})) if fields is None else fields
    if m._messageType != msg['type']:
        out.append(('type', 'expected %d got %r' % (msg['type'], m._messageType)))
    for a in PARSED_ATTRS:
        got = getattr(m, a, None)
        exp = fields.get(a)
        if got != exp or (exp is not None and type(got) is not type(exp) and not isinstance(got, type(exp))):
            out.append(('field.' + a, 'expected %r got %r' % (exp, got)))
    if msg['sig']:
        if m.signature != msg['sig']:
            out.append(('signature', 'expected %r got %r' % (msg['sig'], m.signature)))
        exp = normal_forms(msg['sig'], msg['trees'])
        if not R.nf_equal(m.body, exp):
            out.append(('body', 'expected %r got %r' % (exp, m.body)))
    else:
        if m.signature not in (None, '') or (m.body not in (None, [])):
            out.append(('body', 'expected no body, got sig %r body %r' % (m.signature, m.body)))
    if bool(m.expectReply) != (not msg.get('no_reply')):
        out.append(('flag.expectReply', 'expected %r got %r' % (not msg.get('no_reply'), m.expectReply)))
    if bool(m.autoStart) != (not msg.get('no_auto')):
        out.append(('flag.autoStart', 'expected %r got %r' % (not msg.get('no_auto'), m.autoStart)))
    return [('%s.%s' % (prefix, k), d) for k, d in out]
