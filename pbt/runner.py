"""
CLI:  python -m pbt.runner <Cxx> <quick|thorough>
      python -m pbt.runner --replay <file>

Collect-then-report runner shared by all properties (DESIGN.md section 1).
Exit 0: property held on everything explored (KNOWN-FINDING lines allowed)
Exit 1: at least one `VIOLATION property=<id> replay=<path>` line was printed
Exit 2: harness error / inconclusive -- never a violation
"""
import collections
import importlib
import json
import multiprocessing
import os
import re
import sys
import time
import traceback

from . import core
from . import cov as covtrace

MAX_SAMPLES = 6


def _load(prop):
    return importlib.import_module('pbt.props.' + prop.lower())


_quiet_done = [False]


def _quiet_twisted():
    # nothing may reach the real stdout/stderr from txdbus' log calls or from Deferreds that
    # end in a failure nobody consumed (those are judged by the oracles, not by Twisted's logger)
    if _quiet_done[0]:
        return
    _quiet_done[0] = True
    try:
        from twisted.logger import globalLogBeginner
        globalLogBeginner.beginLoggingTo([lambda event: None], redirectStandardIO=False, discardBuffer=True)
    except Exception:
        pass


def _discs(r):
    return r[0] if isinstance(r, tuple) else r


class Collector:
    def __init__(self, sub):
        self.sub = sub
        self.evals = 0
        self.hashes = set()
        self.labels = collections.Counter()
        self.discs = {}
        self.samples = []
        self.inner = 0

    def record(self, case):
        self.evals += 1
        nontrivial, labels = self.sub.classify(case)
        for lb in labels:
            self.labels[lb] += 1
        if nontrivial:
            self.labels['nontrivial'] += 1
            self.hashes.add(core.case_hash(case))
            if len(self.samples) < MAX_SAMPLES:
                s = core.canon(case)
                if len(s) < 1500:
                    self.samples.append(case)
        try:
            discs = self.sub.run(case)
        except core.HarnessError:
            raise
        except Exception as e:
            # an exception that passed through txdbus code and that the sub-check did not anticipate is behaviour of the
            # code under test; one raised purely inside the harness makes exc_key raise HarnessError (exit 2)
            discs = [core.Disc(core.exc_key(e, self.sub.name + '.uncaught'), core.exc_detail(e))]
        if isinstance(discs, tuple):      # (discrepancies, number of inner executions)
            discs, inner = discs
            self.inner += inner
        size = None
        for d in discs:
            if size is None:
                size = len(core.canon(case))
            cur = self.discs.get(d.key)
            if cur is None:
                self.discs[d.key] = {'count': 1, 'case': case, 'detail': d.detail, 'size': size}
            else:
                cur['count'] += 1
                if size < cur['size']:
                    cur.update(case=case, detail=d.detail, size=size)
        return discs

    def result(self):
        return {'evals': self.evals, 'hashes': self.hashes, 'labels': dict(self.labels),
                'discs': self.discs, 'samples': self.samples, 'inner': self.inner}


def _shard(args):
    prop, sub_name, tier, seed, shard, nshards = args
    try:
        covtrace.start()
        _quiet_twisted()
        mod = _load(prop)
        sub = {s.name: s for s in mod.SUBCHECKS}[sub_name]
        col = Collector(sub)
        thin = OPT_PASS          # the second pass (interpreter started with -O) takes every third enumerated case ...
        if sub.enumerate is not None:
            for idx, case in enumerate(sub.enumerate(tier)):
                if idx % nshards == shard and (not thin or (idx // nshards) % 3 == seed % 3):
                    col.record(case)
        if sub.strategy is not None:
            import hypothesis
            from hypothesis import HealthCheck, Phase, given, settings
            n = sub.n[tier]
            if thin:
                n = max(20, n // 4)       # ... and a quarter of the generated ones
            strat = sub.strategy(tier)

            @hypothesis.seed(seed * 1000 + shard)
            @settings(max_examples=n, database=None, deadline=None, derandomize=False,
                      report_multiple_bugs=False, phases=[Phase.generate],
                      suppress_health_check=[HealthCheck.too_slow, HealthCheck.data_too_large,
                                             HealthCheck.large_base_example])
            @given(strat)
            def t(case):
                col.record(case)
            t()
        covtrace.dump(prop)
        return ('ok', col.result())
    except BaseException:
        return ('err', 'shard %s/%s of %s.%s: %s' % (shard, nshards, prop, sub_name,
                                                     traceback.format_exc()))


OPT_PASS = bool(os.environ.get('VERIF_OPT_PASS'))


def second_pass_env(seed):
    """The rest of the second pass's interpreter configuration: an ASCII locale with UTF-8 mode switched off (what
    open(), os.fsencode() and friends default to), another string-hash seed (set and dict-of-set iteration order), and
    DEBUG-level logging; standard streams stay UTF-8 so that reports can be printed."""
    return {'LC_ALL': 'C', 'PYTHONCOERCECLOCALE': '0', 'PYTHONUTF8': '0', 'PYTHONIOENCODING': 'utf-8',
            'PYTHONHASHSEED': str(1000 + int(seed)), 'VERIF_DEBUG_LOGGING': '1'}


if os.environ.get('VERIF_DEBUG_LOGGING'):
    # ... and an application that has turned its diagnostics up: every logger enabled down to DEBUG (records go nowhere),
    # so that code guarded by isEnabledFor(DEBUG) runs
    import logging
    logging.getLogger().addHandler(logging.NullHandler())
    logging.getLogger().setLevel(logging.DEBUG)


def _optimised_pass(prop, tier, seed):
    """The same check once more in an interpreter started with -O (assert statements and `if __debug__` blocks are
    compiled away - a common deployment setting under which every property must hold just the same).  Thinned; its
    violations are this check's violations.  -> (exit code, lines to print, cases)"""
    import subprocess
    env = dict(os.environ, VERIF_OPT_PASS='1', VERIF_NO_EVIDENCE='1', VERIF_SEED=str(seed))
    env.pop('PYTHONOPTIMIZE', None)
    env.update(second_pass_env(seed))
    pr = subprocess.run([sys.executable, '-O', '-m', 'pbt.runner', prop, tier], cwd=core.VERIF_DIR, env=env,
                        capture_output=True, text=True)
    lines, cases = [], 0
    take = False
    for ln in pr.stdout.splitlines():
        if ln.startswith('VIOLATION') or ln.startswith('KNOWN-FINDING'):
            take = ln.startswith('VIOLATION')
            if take:
                lines.append(ln)
        elif take and ln.startswith('  '):
            lines.append(ln)
            if ln.startswith('  key='):
                lines.append('  (seen in the pass that runs the interpreter with -O: replay re-executes itself that way)')
        else:
            take = False
            m = re.match(r'^%s %s seed=\d+: (\d+) cases' % (prop, tier), ln)
            if m:
                cases = int(m.group(1))
    if pr.returncode not in (0, 1) or (pr.returncode == 1 and not lines):
        sys.stderr.write('HARNESS ERROR in the -O pass (exit %d):\n%s\n' % (pr.returncode, (pr.stderr or pr.stdout)[-3000:]))
        return 2, [], cases
    return pr.returncode, lines, cases


def _shrink(mod, sub, key, tier, seed, budget=400):
    """Hypothesis-driven shrink of one discrepancy key (thorough tier)."""
    if sub.strategy is None:
        return None
    import hypothesis
    from hypothesis import HealthCheck, Phase, given, settings
    last = {}

    class Hit(Exception):
        pass

    for shard in range(sub.shards[tier]):
        @hypothesis.seed(seed * 1000 + shard)
        @settings(max_examples=budget, database=None, deadline=None, report_multiple_bugs=False,
                  phases=[Phase.generate, Phase.shrink],
                  suppress_health_check=list(HealthCheck))
        @given(sub.strategy(tier))
        def t(case):
            for d in _discs(sub.run(case)):
                if d.key == key:
                    last['case'] = case
                    last['detail'] = d.detail
                    raise Hit()
        try:
            t()
        except Hit:
            return last
        except Exception:
            if last:
                return last
    return None


def run_property(prop, tier, seed):
    t0 = time.time()
    covtrace.start()
    from . import refcodec
    refcodec.self_test()
    mod = _load(prop)
    _quiet_twisted()
    findings = [f for f in core.load_findings() if f.prop == prop]
    open_keys = {f.key for f in findings if f.status == 'open'}
    subs = {s.name: s for s in mod.SUBCHECKS}
    violations = []   # (subcheck, key, case, detail)
    known_hits = collections.Counter()
    lines = []

    # 1. regression tier: minimal replays of defects that were fixed
    rdir = os.path.join(core.VERIF_DIR, 'regress', prop)
    n_regress = 0
    if os.path.isdir(rdir):
        for fn in sorted(os.listdir(rdir)):
            if not fn.endswith('.json'):
                continue
            rp = core.read_replay(os.path.join(rdir, fn))
            n_regress += 1
            for d in _discs(subs[rp['subcheck']].run(rp['case'])):
                if d.key in open_keys:
                    known_hits[d.key] += 1
                else:
                    violations.append((rp['subcheck'], d.key, rp['case'], d.detail))

    # 2. open findings: re-run their probes
    for f in findings:
        if f.status != 'open':
            continue
        rp = core.read_replay(os.path.join(core.VERIF_DIR, f.probe))
        keys = [d.key for d in _discs(subs[rp['subcheck']].run(rp['case']))]
        if f.key in keys:
            lines.append('KNOWN-FINDING: property=%s %s' % (prop, f.text))
        else:
            lines.append('NOTE: recorded finding no longer reproduces (key=%s): %s' % (f.key, f.text))
        for k in keys:
            if k not in open_keys:
                violations.append((rp['subcheck'], k, rp['case'], 'while replaying probe ' + f.probe))

    # 3. generated search
    tasks = []
    for s in mod.SUBCHECKS:
        ns = s.shards[tier]
        for sh in range(ns):
            tasks.append((prop, s.name, tier, seed, sh, ns))
    nproc = min(16, len(tasks)) or 1
    merged = {s.name: {'evals': 0, 'hashes': set(), 'labels': collections.Counter(),
                       'discs': {}, 'samples': [], 'inner': 0} for s in mod.SUBCHECKS}
    if nproc == 1 or os.environ.get('VERIF_SERIAL'):
        results = [_shard(t) for t in tasks]
    else:
        ctx = multiprocessing.get_context('fork')
        with ctx.Pool(nproc) as pool:
            results = pool.map(_shard, tasks, chunksize=1)
    for task, (status, res) in zip(tasks, results):
        if status != 'ok':
            sys.stderr.write('HARNESS ERROR: %s\n' % res)
            return 2
        m = merged[task[1]]
        m['evals'] += res['evals']
        m['inner'] += res.get('inner', 0)
        m['hashes'] |= res['hashes']
        m['labels'].update(res['labels'])
        for s in res['samples']:
            if len(m['samples']) < MAX_SAMPLES:
                m['samples'].append(s)
        for k, d in res['discs'].items():
            cur = m['discs'].get(k)
            if cur is None:
                m['discs'][k] = d
            else:
                cur['count'] += d['count']
                if d['size'] < cur['size']:
                    cur.update(case=d['case'], detail=d['detail'], size=d['size'])

    for name, m in merged.items():
        for k, d in sorted(m['discs'].items()):
            if k in open_keys:
                known_hits[k] += d['count']
                continue
            case, detail = d['case'], d['detail']
            if tier == 'thorough' and d['size'] > 300:
                try:
                    sh = _shrink(mod, subs[name], k, tier, seed)
                    if sh and len(core.canon(sh['case'])) < d['size']:
                        case, detail = sh['case'], sh['detail']
                except Exception:
                    pass
            violations.append((name, k, case, '%s (seen %d times)' % (detail, d['count'])))

    # 4. report
    seen = set()
    nviol = 0
    for name, key, case, detail in violations:
        if (name, key) in seen:
            continue
        seen.add((name, key))
        nviol += 1
        path = core.write_replay(prop, name, case, key, detail,
                                 os.environ.get('VERIF_REPLAY_DIR') or None)
        lines.append('VIOLATION property=%s replay=%s' % (prop, os.path.relpath(path, core.VERIF_DIR)))
        lines.append('  key=%s' % key)
        lines.append('  ' + detail.strip().replace('\n', '\n  ')[:1200])

    opt_cases = None
    if nviol == 0 and not OPT_PASS and not sys.flags.optimize and not os.environ.get('VERIF_NO_OPT_PASS'):
        rc, olines, opt_cases = _optimised_pass(prop, tier, seed)
        if rc == 2:
            return 2
        if rc == 1:
            nviol += sum(1 for ln in olines if ln.startswith('VIOLATION'))
            lines.extend(olines)

    evals = sum(m['evals'] for m in merged.values()) + n_regress
    hashes = set()
    for name, m in merged.items():
        hashes |= {name + h for h in m['hashes']}
    samples = []
    for name, m in merged.items():
        for s in m['samples'][:3]:
            samples.append({'subcheck': name, 'case': s})
    if not samples:
        for name, m in merged.items():
            samples.append({'subcheck': name, 'case': None})
    exhaustive = {s.name: s.exhaustive_note for s in mod.SUBCHECKS if s.enumerate is not None}
    cov = {
        'evaluations': evals,
        'distinct_nontrivial': len(hashes),
        'rule': mod.RULE,
        'samples': samples,
        'per_subcheck': {name: {'evaluations': m['evals'], 'distinct_nontrivial': len(m['hashes']),
                                'inner_executions': m['inner'],
                                'labels': dict(sorted(m['labels'].items()))}
                         for name, m in merged.items()},
        'exhaustive_subspaces': exhaustive,
        'exhaustive': False,
        'regression_replays': n_regress,
        'known_finding_hits': dict(known_hits),
        'excluded_by_construction': getattr(mod, 'EXCLUSIONS', []),
        'optimised_interpreter_pass': ({'cases': opt_cases, 'note': 'the same subchecks re-run in a python -O child '
                                        '(every third enumerated case, a quarter of the generated ones, all replays)'}
                                       if opt_cases is not None else None),
    }
    ev = {
        'property_id': prop, 'tier': tier, 'seed': seed, 'level': mod.LEVEL, 'coverage': cov,
        'assumptions': getattr(mod, 'ASSUMPTIONS', []),
        'wall_s': round(time.time() - t0, 2), 'violations': nviol,
    }
    if not os.environ.get('VERIF_NO_EVIDENCE'):
        os.makedirs(os.path.join(core.VERIF_DIR, 'evidence'), exist_ok=True)
        with open(os.path.join(core.VERIF_DIR, 'evidence', prop + '.json'), 'w') as f:
            json.dump(ev, f, indent=1, sort_keys=True, default=str)
    for ln in lines:
        print(ln)
    inner_total = sum(m['inner'] for m in merged.values())
    print('%s %s seed=%d: %d cases, %d distinct non-trivial, %d violation key(s), %.1fs%s' % (
        prop, tier, seed, evals, len(hashes), nviol, time.time() - t0,
        '' if opt_cases is None else ' (+%d cases under python -O)' % opt_cases))
    for name, m in merged.items():
        print('  %-14s %7d cases  %s' % (name, m['evals'], dict(sorted(m['labels'].items()))))
    return 1 if nviol else 0


def replay(path):
    rp = core.read_replay(path)
    if rp.get('python_optimize') and not sys.flags.optimize:
        env = dict(os.environ)
        env.update(second_pass_env(rp.get('seed', os.environ.get('VERIF_SEED', '1') or 1)))
        os.execve(sys.executable, [sys.executable, '-O', '-m', 'pbt.runner', '--replay', path], env)
    mod = _load(rp['property'])
    _quiet_twisted()
    sub = {s.name: s for s in mod.SUBCHECKS}[rp['subcheck']]
    discs = _discs(sub.run(rp['case']))
    for d in discs:
        print('DISCREPANCY key=%s\n  %s' % (d.key, d.detail.replace('\n', '\n  ')))
    if discs:
        print('VIOLATION property=%s replay=%s' % (rp['property'], path))
        return 1
    print('replay clean: %s' % path)
    return 0


def main(argv):
    try:
        if len(argv) >= 2 and argv[0] == '--replay':
            return replay(argv[1])
        prop = argv[0].upper()
        tier = argv[1] if len(argv) > 1 else os.environ.get('VERIF_TIER', 'quick')
        seed = int(os.environ.get('VERIF_SEED', '1') or 1)
        return run_property(prop, tier, seed)
    except SystemExit:
        raise
    except BaseException:
        sys.stderr.write('HARNESS ERROR: ' + traceback.format_exc())
        return 2


if __name__ == '__main__':
    sys.exit(main(sys.argv[1:]))
