"""
In-memory stand-ins for the four doors through which nondeterminism reaches txdbus:
dataReceived, fileDescriptorReceived, connectionLost and reactor.callLater.
"""
from twisted.internet import interfaces
from twisted.internet.address import IPv4Address, UNIXAddress
from twisted.python.failure import Failure
from twisted.internet.error import ConnectionDone, ConnectionLost
from zope.interface import implementer


@implementer(interfaces.ITransport)
class FakeTransport:
    """Records what the protocol writes. TCP-like: does not provide IUNIXTransport."""

    def __init__(self):
        self.written = []        # list of ('data', bytes) / ('fd', fd) in call order
        self.disconnecting = False
        self.disconnected = False
        self.lose_calls = 0

    # -- ITransport
    def write(self, data):
        assert isinstance(data, (bytes, bytearray)), 'transport.write got %r' % type(data)
        if self.disconnected:
            return
        self.written.append(('data', bytes(data)))

    def writeSequence(self, seq):
        for d in seq:
            self.write(d)

    def loseConnection(self):
        self.lose_calls += 1
        self.disconnecting = True

    def abortConnection(self):
        self.loseConnection()

    def getPeer(self):
        return IPv4Address('TCP', '127.0.0.1', 1)

    def getHost(self):
        return IPv4Address('TCP', '127.0.0.1', 2)

    # -- helpers
    def take(self):
        """Return and clear the bytes written so far."""
        out = b''.join(d for k, d in self.written if k == 'data')
        self.written = []
        return out

    def peek(self):
        return b''.join(d for k, d in self.written if k == 'data')

    def take_events(self):
        out = self.written
        self.written = []
        return out


@implementer(interfaces.IUNIXTransport)
class FakeUnixTransport(FakeTransport):
    def sendFileDescriptor(self, fd):
        if self.disconnected:
            return
        self.written.append(('fd', fd))

    def getPeer(self):
        return UNIXAddress('/fake')

    def getHost(self):
        return UNIXAddress('/fake')


class StubSocket:
    """transport.socket for the SO_PEERCRED path"""

    def __init__(self, creds=None):
        self.creds = creds

    def getsockopt(self, level, opt, buflen):
        import struct
        if self.creds is None:
            raise OSError('no credentials')
        return struct.pack('3i', *self.creds)


def deliver(proto, data):
    """Hand bytes to the protocol the way the reactor does: an exception escaping
    dataReceived costs the peer its own connection.  Returns the exception or None."""
    t = proto.transport
    if t.disconnected:
        return None
    try:
        proto.dataReceived(data)
    except Exception as e:      # the reactor logs it and drops the connection
        close(proto, Failure(e))
        return e
    if t.disconnecting and not t.disconnected:
        close(proto)
    return None


def close(proto, reason=None):
    t = proto.transport
    if t.disconnected:
        return
    t.disconnected = True
    t.disconnecting = True
    if reason is None:
        reason = Failure(ConnectionDone())
    proto.connectionLost(reason)


def lost_reason():
    return Failure(ConnectionLost('harness cut the link'))


def cut(data, cuts):
    """Split bytes at the given sorted cut positions."""
    out = []
    prev = 0
    for c in sorted(set(cuts)):
        if 0 < c < len(data):
            out.append(data[prev:c])
            prev = c
    out.append(data[prev:])
    return [x for x in out if x] or [b'']
