"""
In-memory stand-ins for the four doors through which nondeterminism reaches txdbus:
dataReceived, fileDescriptorReceived, connectionLost and reactor.callLater.
"""
from twisted.internet import interfaces
from twisted.internet.address import IPv4Address, UNIXAddress
from twisted.python.failure import Failure
from twisted.internet.error import ConnectionDone, ConnectionLost
from zope.interface import implementer


@implementer(interfaces.ITransport)
class FakeTransport:
    """Records what the protocol writes. TCP-like: does not provide IUNIXTransport."""

    def __init__(self):
        self.written = []        # list of ('data', bytes) / ('fd', fd) in call order
        self.disconnecting = False
        self.disconnected = False
        self.lose_calls = 0
        self.linger = False      # True: loseConnection() only REQUESTS the close; data keeps arriving until close()
        self.on_write = None     # hook called with the bytes of each write (a peer that answers synchronously)

    # -- ITransport
    def write(self, data):
        assert isinstance(data, (bytes, bytearray)), 'transport.write got %r' % type(data)
        if self.disconnected:
            return
        self.written.append(('data', bytes(data)))
        if self.on_write is not None:
            self.on_write(bytes(data))

    def writeSequence(self, seq):
        for d in seq:
            self.write(d)

    def loseConnection(self):
        self.lose_calls += 1
        self.disconnecting = True

    def abortConnection(self):
        self.loseConnection()

    def getPeer(self):
        return IPv4Address('TCP', '127.0.0.1', 1)

    def getHost(self):
        return IPv4Address('TCP', '127.0.0.1', 2)

    # -- helpers
    def take(self):
        """Return and clear the bytes written so far."""
        out = b''.join(d for k, d in self.written if k == 'data')
        self.written = []
        return out

    def peek(self):
        return b''.join(d for k, d in self.written if k == 'data')

    def take_events(self):
        out = self.written
        self.written = []
        return out


@implementer(interfaces.IUNIXTransport)
class FakeUnixTransport(FakeTransport):
    def sendFileDescriptor(self, fd):
        if self.disconnected:
            return
        self.written.append(('fd', fd))

    def getPeer(self):
        return UNIXAddress('/fake')

    def getHost(self):
        return UNIXAddress('/fake')


class _UnixLikeTransport(FakeTransport):
    """Same behaviour as FakeUnixTransport, but the class itself declares nothing."""
    sendFileDescriptor = FakeUnixTransport.sendFileDescriptor
    getPeer = FakeUnixTransport.getPeer
    getHost = FakeUnixTransport.getHost


def unix_transport_by_instance():
    """A UNIX-socket transport that provides IUNIXTransport on the INSTANCE (zope.interface.directlyProvides), the way
    twisted.protocols.policies.ProtocolWrapper presents the transport it wraps."""
    from zope.interface import directlyProvides
    t = _UnixLikeTransport()
    directlyProvides(t, interfaces.IUNIXTransport)
    return t


class StubSocket:
    """transport.socket for the SO_PEERCRED path"""

    def __init__(self, creds=None):
        self.creds = creds

    def getsockopt(self, level, opt, buflen):
        import struct
        if self.creds is None:
            raise OSError('no credentials')
        return struct.pack('3i', *self.creds)


def deliver(proto, data):
    """Hand bytes to the protocol the way the reactor does: an exception escaping
    dataReceived costs the peer its own connection.  Returns the exception or None."""
    t = proto.transport
    if t.disconnected:
        return None
    try:
        proto.dataReceived(data)
    except Exception as e:      # the reactor logs it and drops the connection
        close(proto, Failure(e))
        return e
    if t.disconnecting and not t.disconnected and not getattr(t, 'linger', False):
        close(proto)
    return None


def close(proto, reason=None):
    t = proto.transport
    if t.disconnected:
        return
    t.disconnected = True
    t.disconnecting = True
    if reason is None:
        reason = Failure(ConnectionDone())
    proto.connectionLost(reason)


def lost_reason(kind=0):
    """Why a connection ended: reset / lost (0), closed cleanly by the peer (1), aborted locally (2)."""
    from twisted.internet.error import ConnectionAborted
    kind %= 3
    if kind == 1:
        return Failure(ConnectionDone('harness closed the link'))
    if kind == 2:
        return Failure(ConnectionAborted('harness aborted the link'))
    return Failure(ConnectionLost('harness cut the link'))


def cut(data, cuts):
    """Split bytes at the given sorted cut positions."""
    out = []
    prev = 0
    for c in sorted(set(cuts)):
        if 0 < c < len(data):
            out.append(data[prev:c])
            prev = c
    out.append(data[prev:])
    return [x for x in out if x] or [b'']


# ---------------------------------------------------------------------------
# an established client connection on a fake transport, with a virtual clock

GUID = b'0123456789abcdef0123456789abcdef'


class RigFailure(Exception):
    """The connection under test could not be brought to the established state by a
    conforming server script: itself a discrepancy, reported by the caller."""


class ClientRig:
    """DBusClientConnection driven entirely in memory.

    `clock` replaces txdbus.client.reactor (restored by close_rig)."""

    def __init__(self, unix=False, bus_name=':1.42', establish=True):
        from twisted.internet import task
        import txdbus.client as C
        self.C = C
        self.clock = task.Clock()
        self._saved_reactor = C.reactor
        C.reactor = self.clock
        try:
            self.factory = C.DBusClientFactory()
            self.connect_results = []
            self.factory.getConnection().addBoth(self.connect_results.append)
            self.conn = self.factory.buildProtocol(None)
            self.transport = FakeUnixTransport() if unix else FakeTransport()
            self.conn.makeConnection(self.transport)
        except Exception as e:
            C.reactor = self._saved_reactor
            raise RigFailure('the client factory could not produce a connected protocol: %s: %s' % (type(e).__name__, e))
        self.unix = unix
        self.bus_name = bus_name
        self.hello_serial = None
        if establish:
            self.establish()

    def establish(self):
        from . import refcodec as R
        self.transport.take()
        deliver(self.conn, b'OK ' + GUID + b'\r\n')
        if self.unix:
            deliver(self.conn, b'AGREE_UNIX_FD\r\n')
        out = self.transport.take()
        try:
            if not out.startswith((b'NEGOTIATE_UNIX_FD\r\nBEGIN\r\n' if self.unix else b'BEGIN\r\n')):
                raise RigFailure('after OK the client wrote %r' % out)
            raw = out.split(b'BEGIN\r\n', 1)[1]
            try:
                hello = R.decode_message(raw)
            except R.RefError as e:
                raise RigFailure('no well-formed Hello after BEGIN: %s (%r)' % (e, raw))
            if hello['fields'].get(3) != 'Hello':
                raise RigFailure('first message is not Hello: %r' % (hello['fields'],))
            self.hello_serial = hello['serial']
            deliver(self.conn, R.encode_message(2, 1, {5: hello['serial'], 6: self.bus_name}, 's', [self.bus_name]))
            if self.conn.busName != self.bus_name or len(self.connect_results) != 1:
                raise RigFailure('Hello reply (reply_serial %d) did not complete the connection: busName=%r connect '
                                 'results %r' % (hello['serial'], self.conn.busName, self.connect_results))
        except RigFailure:
            self.close_rig()
            raise
        return self

    def sent_messages(self):
        """Decode and clear everything written since the last call: list of dicts from the
        reference decoder (strict), each with 'raw'; fds interleaved as ('fd', x)."""
        from . import refcodec as R
        out = []
        buf = b''
        for kind, item in self.transport.take_events():
            if kind == 'fd':
                out.append(('fd', item))
                continue
            buf += item
            while len(buf) >= 16 and len(buf) >= R.message_length(buf[:16]):
                n = R.message_length(buf[:16])
                d = R.decode_message(buf[:n])
                d['raw'] = buf[:n]
                out.append(('msg', d))
                buf = buf[n:]
        assert not buf, 'partial message written: %r' % buf
        return out

    def close_rig(self):
        self.C.reactor = self._saved_reactor


# ---------------------------------------------------------------------------
# the built-in bus with raw scripted clients

class RawClient:
    """What a peer of the bus sees: handshake lines and reference-decoded messages."""

    def __init__(self, rig, proto):
        self.rig = rig
        self.proto = proto              # the bus-side BusProtocol
        self.transport = proto.transport
        self.inbox = []                 # decoded messages received from the bus, in order
        self.name = None
        self.serial = 0
        self._buf = b''
        self.connected = True
        self.little = True              # byte order this peer writes in (every second attached peer is big-endian)

    def pump(self):
        """Decode what the bus wrote to this client since the last call."""
        from . import refcodec as R
        self._buf += self.transport.take()
        new = []
        while len(self._buf) >= 16 and len(self._buf) >= R.message_length(self._buf[:16]):
            n = R.message_length(self._buf[:16])
            d = R.decode_message(self._buf[:n])
            d['raw'] = self._buf[:n]
            self._buf = self._buf[n:]
            new.append(d)
        self.inbox.extend(new)
        return new

    def send(self, mtype, fields, sig='', trees=(), flags=0, little=None, serial=None):
        """Send one message; returns its serial."""
        from . import refcodec as R
        if little is None:
            little = self.little
        if serial is None:
            self.serial += 1
            serial = self.serial
        raw = R.encode_variant(serial, mtype, serial, fields, sig, list(trees), little=little, flags=flags)
        deliver(self.proto, raw)
        return serial

    def call_bus(self, member, sig='', trees=(), path='/org/freedesktop/DBus', with_interface=None, no_reply=False):
        """Method call to org.freedesktop.DBus; returns the decoded reply (or None)."""
        fields = {1: path, 2: 'org.freedesktop.DBus', 3: member, 6: 'org.freedesktop.DBus'}
        if with_interface is None:
            with_interface = (self.serial + 1) % 5 != 4
        if not with_interface:
            del fields[2]       # INTERFACE is an optional header field of a method call
        # SENDER is the peer's to write and the bus's to overwrite: absent, truthful, or naming somebody else
        k = (self.serial + 1) % 3
        if self.name and k == 1:
            others = [x.name for x in self.rig.clients if x is not self and x.name and x.connected]
            fields[7] = others[self.serial % len(others)] if others else ':1.4242'
        elif self.name and k == 2:
            fields[7] = self.name
        s = self.send(1, fields, sig, trees, flags=1 if no_reply else 0)     # 1 = NO_REPLY_EXPECTED: fire and forget
        self.rig.pump_all()
        for m in self.inbox:
            if m['type'] in (2, 3) and m['fields'].get(5) == s:
                return m
        return None

    def disconnect(self):
        if self.connected:
            self.connected = False
            # connections end in more ways than the clean close: reset by the peer, aborted locally
            from twisted.internet.error import ConnectionAborted
            k = (self.serial + len(self.rig.clients)) % 3
            reason = [None, lost_reason(), Failure(ConnectionAborted())][k]
            close(self.proto, reason)


class BusRig:
    def __init__(self):
        import txdbus.protocol as P
        from txdbus import bus as B
        P._is_linux = False
        self.B = B
        self.bus = B.Bus()

        class _Factory:
            pass
        self.factory = _Factory()
        self.factory.bus = self.bus
        self.clients = []

    def new_protocol(self, transport=None):
        p = self.B.BusProtocol()
        p.factory = self.factory
        p.makeConnection(transport or FakeTransport())
        return p

    def attach(self, hello=True):
        p = self.new_protocol()
        c = RawClient(self, p)
        c.said_hello = bool(hello)
        c.little = len(self.clients) % 2 == 0
        deliver(p, b'\0AUTH ANONYMOUS 7665726966\r\n')
        out = p.transport.take()
        if not out.startswith(b'OK '):
            raise RigFailure('bus answered AUTH ANONYMOUS with %r' % out)
        deliver(p, b'BEGIN\r\n')
        self.clients.append(c)
        if hello:
            # every third peer leaves the (optional) INTERFACE field out of its Hello
            r = c.call_bus('Hello', with_interface=len(self.clients) % 3 != 0)
            if r is None or r['type'] != 2 or not r['body'] or not isinstance(r['body'][0], str):
                raise RigFailure('Hello was answered with %r' % (r,))
            c.name = r['body'][0]
            c.inbox.remove(r)
        else:
            # a peer that never says Hello: the bus serves its calls to the bus driver all the same and gives it a
            # unique name with its first message; the peer reads that name off the destination of the first reply
            r = c.call_bus('GetNameOwner', 's', ['org.verif.nobody-owns-this'])
            if r is None or r['type'] not in (2, 3) or not isinstance(r['fields'].get(6), str):
                raise RigFailure('GetNameOwner from a peer that skipped Hello was answered with %r' % (r,))
            c.name = r['fields'][6]
            c.inbox.remove(r)
        return c

    def pump_all(self):
        for c in self.clients:
            if c.connected or c.transport.peek():
                c.pump()


# ---------------------------------------------------------------------------
# real clients attached to the real bus through scheduler-controlled links

class Link:
    """One client <-> bus connection; bytes travel only when the scheduler says so."""

    def __init__(self, client_proto, server_proto):
        self.c = client_proto
        self.s = server_proto
        self.c2s = b''
        self.s2c = b''

    def collect(self):
        self.c2s += self.c.transport.take()
        self.s2c += self.s.transport.take()

    def pending(self):
        self.collect()
        out = []
        if self.c2s and not self.s.transport.disconnected:
            out.append('c2s')
        if self.s2c and not self.c.transport.disconnected:
            out.append('s2c')
        return out

    def move(self, direction, n):
        """Deliver up to n bytes (n=0: up to the end of the first queued D-Bus message, or the
        whole queue while it still holds handshake lines)."""
        from . import refcodec as R
        self.collect()
        buf = self.c2s if direction == 'c2s' else self.s2c
        if n == 0:
            if len(buf) >= 16 and buf[:1] in (b'l', b'B') and buf[3:4] == b'\x01':
                n = min(len(buf), R.message_length(buf[:16]))
            else:
                n = len(buf)
        chunk, rest = buf[:n], buf[n:]
        if direction == 'c2s':
            self.c2s = rest
            return deliver(self.s, chunk)
        self.s2c = rest
        return deliver(self.c, chunk)


class BusNet:
    """The real Bus plus real DBusClientConnections, wired through Links."""

    def __init__(self):
        from twisted.internet import task
        import txdbus.client as C
        from txdbus import authentication as AU
        self.rig = BusRig()
        self.C = C
        self.clock = task.Clock()
        self._saved_reactor = C.reactor
        C.reactor = self.clock
        self.links = []
        self.conns = []
        self.connect_results = []

        class AnonOnly(AU.BusAuthenticator):
            # keeps the cookie mechanism away from the real home directory
            authenticators = {b'ANONYMOUS': AU.BusAnonymousAuthenticator}
        B = self.rig.B

        class Proto(B.BusProtocol):
            authenticator = AnonOnly
        self._proto_cls = Proto

    def add_client(self):
        f = self.C.DBusClientFactory()
        res = []
        f.getConnection().addBoth(res.append)
        conn = f.buildProtocol(None)
        conn.makeConnection(FakeTransport())
        sp = self._proto_cls()
        sp.factory = self.rig.factory
        sp.makeConnection(FakeTransport())
        link = Link(conn, sp)
        self.links.append(link)
        self.conns.append(conn)
        self.connect_results.append(res)
        return conn

    def pending(self):
        out = []
        for i, l in enumerate(self.links):
            for d in l.pending():
                out.append((i, d))
        return out

    def run_fifo(self, limit=10000):
        """Deliver everything, whole queues at a time, until nothing is in flight."""
        n = 0
        while n < limit:
            p = self.pending()
            if not p:
                return True
            i, d = p[0]
            self.links[i].move(d, 1 << 30)
            n += 1
        return False

    def run_schedule(self, schedule, limit=20000):
        """schedule: list of [choice index, nbytes]; cycles when exhausted."""
        k = 0
        n = 0
        trace = []
        while n < limit:
            p = self.pending()
            if not p:
                return trace
            who, nbytes = schedule[k % len(schedule)] if schedule else (0, 1 << 30)
            k += 1
            i, d = p[who % len(p)]
            self.links[i].move(d, nbytes)
            trace.append((i, d))
            n += 1
        raise RigFailure('schedule did not quiesce')

    def close(self):
        self.C.reactor = self._saved_reactor
