"""
Line coverage of txdbus under a check (diagnostic, opt-in: VERIF_COVERAGE=<dir>).

Used by tools/coverage_report.py to list the txdbus lines no generated case reaches, so that generator blind spots can
be read off the source instead of waiting for a seeded change to land in one.  Built on sys.monitoring (Python 3.12):
each line location is reported once and then disabled, so the overhead is negligible and the step meter's sys.settrace
is not disturbed.
"""
import json
import os
import sys

_seen = set()
_root = None


def start():
    global _root
    out = os.environ.get('VERIF_COVERAGE')
    if not out or _root is not None or not hasattr(sys, 'monitoring'):
        return
    from .core import REPO_DIR
    _root = os.path.join(os.path.realpath(REPO_DIR), 'txdbus') + os.sep
    mon = sys.monitoring
    tool = 3
    mon.use_tool_id(tool, 'verifcov')

    def on_line(code, line):
        fn = code.co_filename
        if fn.startswith(_root):
            _seen.add((fn[len(_root):], line))
        return mon.DISABLE
    mon.register_callback(tool, mon.events.LINE, on_line)
    mon.set_events(tool, mon.events.LINE)


def dump(tag):
    out = os.environ.get('VERIF_COVERAGE')
    if not out or _root is None:
        return
    os.makedirs(out, exist_ok=True)
    path = os.path.join(out, '%s-%d.json' % (tag, os.getpid()))
    old = []
    if os.path.exists(path):
        old = json.load(open(path))
    merged = sorted(set(map(tuple, old)) | _seen)
    with open(path, 'w') as f:
        json.dump(merged, f)
