"""
Independent reference implementation of the D-Bus wire format, signature grammar,
name grammars and match-rule syntax, written from the D-Bus specification text.

It shares no code, tables or regular expressions with txdbus.  It is the oracle
the differential checks compare txdbus with.

Value model ("tree"), always interpreted under a signature:

  y n q i u x t h : int            b : bool
  d               : 16 hex digits (IEEE-754 binary64, big-endian) -- JSON-safe, NaN-safe
  s o g           : str
  a<T>            : list of trees of T        (a{KV}: list of [ktree, vtree])
  (T1 T2 ..)      : list of field trees
  v               : [signature, tree]
"""
import struct

# --------------------------------------------------------------------------
# spec table: type code -> alignment, fixed size (None = variable)
ALIGN = {
    'y': 1, 'b': 4, 'n': 2, 'q': 2, 'i': 4, 'u': 4, 'x': 8, 't': 8, 'd': 8,
    's': 4, 'o': 4, 'g': 1, 'a': 4, '(': 8, 'v': 1, '{': 8, 'h': 4,
}
FIXED = {
    'y': (1, 'B'), 'n': (2, 'h'), 'q': (2, 'H'), 'i': (4, 'i'), 'u': (4, 'I'),
    'x': (8, 'q'), 't': (8, 'Q'), 'h': (4, 'I'),
}
INT_RANGE = {
    'y': (0, 2**8 - 1), 'n': (-2**15, 2**15 - 1), 'q': (0, 2**16 - 1),
    'i': (-2**31, 2**31 - 1), 'u': (0, 2**32 - 1), 'x': (-2**63, 2**63 - 1),
    't': (0, 2**64 - 1), 'h': (0, 2**32 - 1),
}
BASIC = set('ybnqiuxtdsogh')


class RefError(Exception):
    """The input is not valid according to the specification."""


# --------------------------------------------------------------------------
# signature grammar

def _parse_one(sig, i, adepth, sdepth):
    """Parse one complete type starting at sig[i]; return index after it."""
    if i >= len(sig):
        raise RefError('truncated signature')
    c = sig[i]
    if c in BASIC or c == 'v':
        return i + 1
    if c == 'a':
        if adepth + 1 > 32:
            raise RefError('array nesting > 32')
        if i + 1 < len(sig) and sig[i + 1] == '{':
            j = i + 2
            if j >= len(sig) or sig[j] not in BASIC:
                raise RefError('dict key must be basic')
            j += 1
            if sdepth + 1 > 32:
                raise RefError('struct nesting > 32')
            j = _parse_one(sig, j, adepth + 1, sdepth + 1)
            if j >= len(sig) or sig[j] != '}':
                raise RefError('dict entry must have exactly two types')
            return j + 1
        return _parse_one(sig, i + 1, adepth + 1, sdepth)
    if c == '(':
        if sdepth + 1 > 32:
            raise RefError('struct nesting > 32')
        j = i + 1
        n = 0
        while True:
            if j >= len(sig):
                raise RefError('unterminated struct')
            if sig[j] == ')':
                break
            j = _parse_one(sig, j, adepth, sdepth + 1)
            n += 1
        if n == 0:
            raise RefError('empty struct')
        return j + 1
    raise RefError('bad type code %r' % c)


def split_signature(sig):
    """Return the list of top-level complete types of a valid signature."""
    if len(sig.encode('utf-8')) > 255:
        raise RefError('signature longer than 255')
    out = []
    i = 0
    while i < len(sig):
        j = _parse_one(sig, i, 0, 0)
        out.append(sig[i:j])
        i = j
    return out


def is_valid_signature(sig):
    try:
        split_signature(sig)
        return True
    except RefError:
        return False


def is_single_complete_type(sig):
    try:
        return len(split_signature(sig)) == 1
    except RefError:
        return False


def struct_fields(t):
    """Field types of a struct '(..)' or dict entry '{..}' type string."""
    return split_inner(t[1:-1])


def split_inner(sig):
    # like split_signature but without the 255 limit check on partial strings
    out = []
    i = 0
    while i < len(sig):
        j = _parse_one(sig, i, 0, 0)
        out.append(sig[i:j])
        i = j
    return out


# --------------------------------------------------------------------------
# encoder

class SharedFds(list):
    """An attachment list whose encoder attaches each descriptor once: h values naming an equal descriptor get the same
    index (the wire format allows several arguments to refer to one attachment)."""


class _Enc:
    def __init__(self, offset, little, fds):
        self.base = offset
        self.out = bytearray()
        self.e = '<' if little else '>'
        self.fds = fds
        self.marks = []     # (index in out, width, kind) of every length field written

    @property
    def pos(self):
        return self.base + len(self.out)

    def pad(self, align):
        while self.pos % align:
            self.out.append(0)

    def put(self, t, v):
        c = t[0]
        self.pad(ALIGN[c])
        if c == 'h':
            if self.fds is None:
                raise RefError('no fd list')
            if isinstance(self.fds, SharedFds) and v in self.fds:
                self.out += struct.pack(self.e + 'I', self.fds.index(v))
            else:
                self.out += struct.pack(self.e + 'I', len(self.fds))
                self.fds.append(v)
        elif c in FIXED:
            lo, hi = INT_RANGE[c]
            if not (isinstance(v, int) and lo <= v <= hi):
                raise RefError('value %r out of range for %s' % (v, c))
            self.out += struct.pack(self.e + FIXED[c][1], v)
        elif c == 'b':
            self.out += struct.pack(self.e + 'I', 1 if v else 0)
        elif c == 'd':
            raw = bytes.fromhex(v)
            assert len(raw) == 8
            self.out += raw if self.e == '>' else raw[::-1]
        elif c in 'so':
            raw = v.encode('utf-8')
            self.marks.append((len(self.out), 4, 'str'))
            self.out += struct.pack(self.e + 'I', len(raw)) + raw + b'\0'
        elif c == 'g':
            raw = v.encode('ascii')
            if len(raw) > 255:
                raise RefError('signature too long')
            self.marks.append((len(self.out), 1, 'sig'))
            self.out += bytes([len(raw)]) + raw + b'\0'
        elif c == 'a':
            et = t[1:]
            lenpos = len(self.out)
            self.marks.append((lenpos, 4, 'arr'))
            self.out += b'\0\0\0\0'
            self.pad(ALIGN[et[0]])
            start = len(self.out)
            for item in v:
                self.put(et, item)
            n = len(self.out) - start
            self.out[lenpos:lenpos + 4] = struct.pack(self.e + 'I', n)
        elif c in '({':
            for ft, fv in zip(struct_fields(t), v, strict=True):
                self.put(ft, fv)
        elif c == 'v':
            vsig, vtree = v
            self.put('g', vsig)
            self.put(vsig, vtree)
        else:
            raise RefError('bad type %r' % t)


def encode(sig, trees, offset=0, little=True, fds=None):
    """Encode trees under the (multi-type) signature, the first byte being at
    message offset `offset`.  Returns bytes (including leading alignment padding)."""
    types = split_inner(sig)
    if len(types) != len(trees):
        raise RefError('arity mismatch')
    e = _Enc(offset, little, fds)
    for t, v in zip(types, trees):
        e.put(t, v)
    return bytes(e.out)


# --------------------------------------------------------------------------
# strict decoder

class _Dec:
    def __init__(self, data, offset, little, strict, nfds=None):
        self.d = data
        self.p = offset
        self.e = '<' if little else '>'
        self.strict = strict
        self.nfds = nfds
        self.depth = 0

    def need(self, n):
        if self.p + n > len(self.d):
            raise RefError('truncated')

    def pad(self, align):
        while self.p % align:
            self.need(1)
            if self.strict and self.d[self.p] != 0:
                raise RefError('non-zero padding at %d' % self.p)
            self.p += 1

    def get(self, t):
        c = t[0]
        self.pad(ALIGN[c])
        if c in FIXED:
            n, f = FIXED[c]
            self.need(n)
            v = struct.unpack_from(self.e + f, self.d, self.p)[0]
            self.p += n
            return v
        if c == 'b':
            self.need(4)
            v = struct.unpack_from(self.e + 'I', self.d, self.p)[0]
            self.p += 4
            if self.strict and v not in (0, 1):
                raise RefError('boolean not 0/1')
            return v != 0
        if c == 'd':
            self.need(8)
            raw = bytes(self.d[self.p:self.p + 8])
            self.p += 8
            return (raw if self.e == '>' else raw[::-1]).hex()
        if c in 'so':
            self.need(4)
            n = struct.unpack_from(self.e + 'I', self.d, self.p)[0]
            self.p += 4
            self.need(n + 1)
            raw = bytes(self.d[self.p:self.p + n])
            if self.d[self.p + n] != 0:
                raise RefError('string not NUL terminated')
            self.p += n + 1
            try:
                s = raw.decode('utf-8')
            except UnicodeDecodeError:
                raise RefError('invalid utf-8')
            if self.strict and '\0' in s:
                raise RefError('embedded NUL')
            if c == 'o' and self.strict and not is_object_path(s):
                raise RefError('invalid object path %r' % s)
            return s
        if c == 'g':
            self.need(1)
            n = self.d[self.p]
            self.p += 1
            self.need(n + 1)
            raw = bytes(self.d[self.p:self.p + n])
            if self.d[self.p + n] != 0:
                raise RefError('signature not NUL terminated')
            self.p += n + 1
            try:
                s = raw.decode('ascii')
            except UnicodeDecodeError:
                raise RefError('non-ascii signature')
            if self.strict and not is_valid_signature(s):
                raise RefError('invalid signature %r' % s)
            return s
        if c == 'a':
            et = t[1:]
            self.need(4)
            n = struct.unpack_from(self.e + 'I', self.d, self.p)[0]
            self.p += 4
            if n > 2**26:
                raise RefError('array too long')
            self.pad(ALIGN[et[0]])
            end = self.p + n
            if end > len(self.d):
                raise RefError('array length beyond data')
            out = []
            while self.p < end:
                before = self.p
                out.append(self.get(et))
                if self.p == before:
                    raise RefError('zero-size element')
            if self.p != end:
                raise RefError('array length mismatch')
            return out
        if c in '({':
            return [self.get(ft) for ft in struct_fields(t)]
        if c == 'v':
            vsig = self.get('g')
            if not is_single_complete_type(vsig):
                raise RefError('variant signature not a single complete type')
            self.depth += 1
            if self.depth > 64:
                raise RefError('variant nesting')
            tree = self.get(vsig)
            self.depth -= 1
            return [vsig, tree]
        raise RefError('bad type %r' % t)


def decode(sig, data, offset=0, little=True, strict=True):
    """Decode values of the signature from data starting at data[offset], which is
    also message offset `offset`. Returns (trees, consumed_bytes)."""
    d = _Dec(data, offset, little, strict)
    out = [d.get(t) for t in split_inner(sig)]
    return out, d.p - offset


# --------------------------------------------------------------------------
# conversions of trees

def normal_form(t, tree, fds=None):
    """The Python value a decoder following txdbus's documented conventions
    returns for this tree: structs as lists, dict arrays as dicts, doubles as
    floats, variants unwrapped."""
    c = t[0]
    if c == 'd':
        return struct.unpack('>d', bytes.fromhex(tree))[0]
    if c == 'b':
        return bool(tree)
    if c in BASIC:
        return tree
    if c == 'a':
        et = t[1:]
        if et[0] == '{':
            kt, vt = struct_fields(et)
            return {normal_form(kt, k): normal_form(vt, v) for k, v in tree}
        return [normal_form(et, x) for x in tree]
    if c in '({':
        return [normal_form(ft, fv) for ft, fv in zip(struct_fields(t), tree)]
    if c == 'v':
        return normal_form(tree[0], tree[1])
    raise RefError(t)


def nf_equal(a, b):
    """Deep equality; floats compared bit-for-bit (so NaN == NaN, 0.0 != -0.0);
    bool is not interchangeable with int; list/tuple distinction is kept."""
    if isinstance(a, float) or isinstance(b, float):
        return (isinstance(a, float) and isinstance(b, float)
                and struct.pack('>d', a) == struct.pack('>d', b))
    if isinstance(a, bool) or isinstance(b, bool):
        return isinstance(a, bool) and isinstance(b, bool) and a == b
    if isinstance(a, dict):
        if not isinstance(b, dict) or len(a) != len(b):
            return False
        # keys may be floats (NaN) -> match by bit pattern
        def kk(k):
            return ('f', struct.pack('>d', k)) if isinstance(k, float) else ('o', type(k).__name__, k)
        bm = {kk(k): v for k, v in b.items()}
        for k, v in a.items():
            if kk(k) not in bm or not nf_equal(v, bm[kk(k)]):
                return False
        return True
    if isinstance(a, list):
        return (type(b) is list and len(a) == len(b)
                and all(nf_equal(x, y) for x, y in zip(a, b)))
    if isinstance(a, (int, str)):
        return type(a) is type(b) and a == b
    return a == b and type(a) is type(b)


def count_nodes(v):
    if isinstance(v, dict):
        return 1 + sum(count_nodes(k) + count_nodes(x) for k, x in v.items())
    if isinstance(v, (list, tuple)):
        return 1 + sum(count_nodes(x) for x in v)
    return 1


def count_chars(v):
    """Total length of the text / byte strings inside a decoded value."""
    if isinstance(v, dict):
        return sum(count_chars(k) + count_chars(x) for k, x in v.items())
    if isinstance(v, (list, tuple)):
        return sum(count_chars(x) for x in v)
    if isinstance(v, (str, bytes, bytearray)):
        return len(v)
    return 0


# --------------------------------------------------------------------------
# messages

# header field code -> (name, signature of the variant content)
FIELDS = {
    1: ('path', 'o'), 2: ('interface', 's'), 3: ('member', 's'), 4: ('error_name', 's'),
    5: ('reply_serial', 'u'), 6: ('destination', 's'), 7: ('sender', 's'),
    8: ('signature', 'g'), 9: ('unix_fds', 'u'),
}
FIELD_CODE = {name: code for code, (name, _) in FIELDS.items()}
REQUIRED = {1: {1, 3}, 2: {5}, 3: {4, 5}, 4: {1, 2, 3}}


def encode_message(mtype, serial, fields, body_sig='', body=(), little=True,
                   flags=0, field_order=None, extra_fields=(), fds=None, version=1,
                   raw_body=None, marks=None):
    """fields: {code:int -> tree}; the signature field (8) is added from body_sig
    unless given explicitly. extra_fields: list of (code, sig, tree) with unknown
    codes, appended/permuted by field_order (list of indices) if given."""
    fl = []
    f = dict(fields)
    if body_sig and 8 not in f:
        f[8] = body_sig
    for code in sorted(f):
        fl.append([code, [FIELDS[code][1], f[code]]])
    for code, s, tree in extra_fields:
        fl.append([code, [s, tree]])
    if field_order is not None:
        assert sorted(field_order) == list(range(len(fl)))
        fl = [fl[i] for i in field_order]
    bfds = [] if fds is None else fds
    be = _Enc(0, little, bfds)
    if raw_body is not None:
        bodyb = raw_body
    elif body_sig:
        for t, v in zip(split_inner(body_sig), body, strict=True):
            be.put(t, v)
        bodyb = bytes(be.out)
    else:
        bodyb = b''
    he = _Enc(0, little, None)
    for t, v in zip(split_inner('yyyyuua(yv)'),
                    [ord('l') if little else ord('B'), mtype, flags, version,
                     len(bodyb), serial, fl]):
        he.put(t, v)
    hdr = bytes(he.out)
    padn = (-len(hdr)) % 8
    if marks is not None:
        marks.append((4, 4, 'bodylen'))
        marks.extend(m for m in he.marks)
        base = len(hdr) + padn
        marks.extend((p + base, w, k) for p, w, k in be.marks)
    return hdr + b'\0' * padn + bodyb


def encode_variant(k, mtype, serial, fields, body_sig='', body=(), little=True, flags=0, fds=None):
    """The same message in one of four spellings a conforming peer may choose (k % 4): 0 canonical (fields by ascending
    code); 1 a header field with a code unknown to this implementation FIRST; 2 fields in descending order with an
    unknown field in the middle; 3 an unknown variant-typed field second, plus flag bit 0x4
    (ALLOW_INTERACTIVE_AUTHORIZATION).  Receivers must ignore unknown fields and flag bits; field order is free."""
    k %= 4
    if k == 0:
        return encode_message(mtype, serial, fields, body_sig, body, little, flags, fds=fds)
    n = len(fields) + (1 if body_sig and 8 not in fields else 0) + 1
    if k == 1:
        extra = [(0x20, 's', 'some-extension')]
        order = [n - 1] + list(range(n - 1))
    elif k == 2:
        extra = [(0x7f, 'u', 7)]
        rev = list(range(n - 2, -1, -1))
        order = rev[:len(rev) // 2] + [n - 1] + rev[len(rev) // 2:]
    else:
        extra = [(0x0a, 'v', ['ay', [1, 2]])]
        order = [0, n - 1] + list(range(1, n - 1))
        flags |= 0x4
    return encode_message(mtype, serial, fields, body_sig, body, little, flags, order, extra, fds=fds)


def decode_message(raw, strict=True):
    """Strict decoder for one complete message.  Returns a dict."""
    if not isinstance(raw, (bytes, bytearray)):
        raise RefError('not a byte string: %r' % (raw,))      # e.g. a message object whose rawMessage was never set
    if len(raw) < 16:
        raise RefError('short message')
    if raw[0] == ord('l'):
        little = True
    elif raw[0] == ord('B'):
        little = False
    else:
        raise RefError('bad endian byte')
    (endian, mtype, flags, version, blen, serial, fl), n = decode(
        'yyyyuua(yv)', raw, 0, little, strict)
    if version != 1:
        raise RefError('bad version')
    if serial == 0:
        raise RefError('zero serial')
    padn = (-n) % 8
    if len(raw) < n + padn:
        raise RefError('truncated header padding')
    if strict and raw[n:n + padn] != b'\0' * padn:
        raise RefError('non-zero header padding')
    bodyb = raw[n + padn:]
    if len(bodyb) != blen:
        raise RefError('body length %d != declared %d' % (len(bodyb), blen))
    fields = {}
    unknown = []
    for code, (vsig, vtree) in fl:
        if code in FIELDS:
            if code in fields:
                raise RefError('duplicate header field %d' % code)
            if vsig != FIELDS[code][1]:
                raise RefError('field %d has type %r' % (code, vsig))
            fields[code] = vtree
        elif code == 0:
            raise RefError('invalid field code 0')
        else:
            unknown.append((code, vsig, vtree))
    if mtype in REQUIRED:
        missing = REQUIRED[mtype] - set(fields)
        if missing:
            raise RefError('missing required fields %s' % sorted(missing))
    elif mtype == 0:
        raise RefError('invalid message type')
    bsig = fields.get(8, '')
    if strict:
        for code, chk in ((1, is_object_path), (2, is_interface_name), (3, is_member_name),
                          (4, is_error_name), (6, is_bus_name), (7, is_bus_name)):
            if code in fields and not chk(fields[code]):
                raise RefError('field %d value %r invalid' % (code, fields[code]))
    if bsig:
        body, used = decode(bsig, bodyb, 0, little, strict)
        if used != len(bodyb):
            raise RefError('body has %d trailing bytes' % (len(bodyb) - used))
    else:
        body = []
        if bodyb:
            raise RefError('body bytes without signature')
    return {
        'little': little, 'type': mtype, 'flags': flags, 'serial': serial,
        'fields': fields, 'unknown': unknown, 'body_sig': bsig, 'body': body,
        'header_len': n, 'pad_len': padn, 'body_len': blen,
    }


def message_length(prefix16):
    """Total length of the message whose first 16 bytes are given."""
    e = '<' if prefix16[0] == ord('l') else '>'
    blen = struct.unpack_from(e + 'I', prefix16, 4)[0]
    alen = struct.unpack_from(e + 'I', prefix16, 12)[0]
    h = 16 + alen
    return h + ((-h) % 8) + blen


# --------------------------------------------------------------------------
# name grammars (hand-written scanners, from the spec's "Valid Names" section)

def _is_alpha_(ch):
    return ('a' <= ch <= 'z') or ('A' <= ch <= 'Z') or ch == '_'


def _is_digit(ch):
    return '0' <= ch <= '9'


def _fits255(s):
    try:
        return len(s.encode('utf-8')) <= 255
    except UnicodeEncodeError:
        return False


def is_object_path(s):
    if not s or s[0] != '/':
        return False
    if s == '/':
        return True
    for el in s[1:].split('/'):
        if not el:
            return False
        for ch in el:
            if not (_is_alpha_(ch) or _is_digit(ch)):
                return False
    return True


def is_interface_name(s):
    if not s or not _fits255(s):
        return False
    els = s.split('.')
    if len(els) < 2:
        return False
    for el in els:
        if not el or _is_digit(el[0]):
            return False
        for ch in el:
            if not (_is_alpha_(ch) or _is_digit(ch)):
                return False
    return True


is_error_name = is_interface_name


def is_member_name(s):
    if not s or not _fits255(s):
        return False
    if _is_digit(s[0]):
        return False
    for ch in s:
        if not (_is_alpha_(ch) or _is_digit(ch)):
            return False
    return True


def is_bus_name(s):
    if not s or not _fits255(s):
        return False
    unique = s[0] == ':'
    body = s[1:] if unique else s
    els = body.split('.')
    if len(els) < 2:
        return False
    for el in els:
        if not el:
            return False
        if not unique and _is_digit(el[0]):
            return False
        for ch in el:
            if not (_is_alpha_(ch) or _is_digit(ch) or ch == '-'):
                return False
    return True


# --------------------------------------------------------------------------
# match rules (spec: "Match Rules")

def parse_match_rule(text):
    """Parse key='value',... into a list of (key, value). Handles the quoting
    rules of the spec (apostrophe-quoted sections, \\' outside quotes)."""
    out = []
    i = 0
    n = len(text)
    while i < n:
        j = text.find('=', i)
        if j < 0:
            raise RefError('missing = in match rule')
        key = text[i:j].strip()
        i = j + 1
        val = []
        inq = False
        while i < n:
            ch = text[i]
            if inq:
                if ch == "'":
                    inq = False
                else:
                    val.append(ch)
            else:
                if ch == "'":
                    inq = True
                elif ch == '\\' and i + 1 < n and text[i + 1] == "'":
                    val.append("'")
                    i += 1
                elif ch == ',':
                    break
                else:
                    val.append(ch)
            i += 1
        if inq:
            raise RefError('unterminated quote')
        out.append((key, ''.join(val)))
        i += 1
    return out


def format_match_rule(pairs):
    """The rule text for (key, value) pairs, written the way the specification asks: values in apostrophes, an
    apostrophe inside a value as '\\'' (inverse of parse_match_rule)."""
    return ','.join("%s='%s'" % (k, str(v).replace("'", "'\\''")) for k, v in pairs)


MTYPE_NAMES = {'method_call': 1, 'method_return': 2, 'error': 3, 'signal': 4}


def rule_matches(rule, msg):
    """rule: dict with optional keys type (name), interface, member, path,
    path_namespace, destination, args {idx: str}, arg_paths {idx: str}.
    msg: dict with type(int), interface, member, path, destination, body (python values)."""
    if rule.get('type') is not None and MTYPE_NAMES.get(rule['type']) != msg['type']:
        return False
    for k in ('interface', 'member', 'path', 'destination'):
        if rule.get(k) is not None and msg.get(k) != rule[k]:
            return False
    ns = rule.get('path_namespace')
    if ns is not None:
        p = msg.get('path')
        if p is None:
            return False
        if not (ns == '/' or p == ns or p.startswith(ns + '/')):
            return False
    body = msg.get('body') or []
    for idx, val in (rule.get('args') or {}).items():
        idx = int(idx)
        if idx >= len(body) or not isinstance(body[idx], str) or body[idx] != val:
            return False
    for idx, val in (rule.get('arg_paths') or {}).items():
        idx = int(idx)
        if idx >= len(body) or not isinstance(body[idx], str):
            return False
        a = body[idx]
        if not (a == val or (val.endswith('/') and a.startswith(val))
                or (a.endswith('/') and val.startswith(a))):
            return False
    return True


# --------------------------------------------------------------------------
# self validation against vectors pinned in the repository's tests and the spec

def self_test():
    le = lambda s, v, off=0: encode(s, v, off, True)  # noqa: E731
    be = lambda s, v, off=0: encode(s, v, off, False)  # noqa: E731
    # vectors from tests/test_marshal.py (little endian unless stated)
    assert le('y', [1]) == b'\x01'
    assert le('b', [True]) == b'\x01\0\0\0'
    assert le('n', [-1024]) == struct.pack('<h', -1024)
    assert le('i', [-2**31]) == struct.pack('<i', -2**31)
    assert le('t', [2**64 - 1]) == b'\xff' * 8
    assert le('s', ['Hello World']) == b'\x0b\0\0\0Hello World\0'
    assert le('g', ['a{yv}']) == b'\x05a{yv}\0'
    assert be('i', [1]) == b'\0\0\0\x01'
    # arrays
    assert le('ay', [[1, 2, 3, 4]]) == b'\x04\0\0\0\x01\x02\x03\x04'
    pk = struct.pack
    assert le('as', [['x', 'foo']]) == pk('<ii2sxxi4s', 16, 1, b'x', 3, b'foo')
    assert le('a(ii)', [[[1, 2], [3, 4]]]) == pk('<ixxxxiiii', 16, 1, 2, 3, 4)
    assert le('a(yy)', [[[1, 2], [3, 4]]]) == pk('<ixxxxBBxxxxxxBB', 10, 1, 2, 3, 4)
    assert le('a{yy}', [[[1, 2], [3, 4]]]) == pk('<ixxxxBBxxxxxxBB', 10, 1, 2, 3, 4)
    assert le('(ysy)', [[1, 'foo', 2]]) == pk('<Bxxxi3sxB', 1, 3, b'foo', 2)
    assert le('(y(ii)y)', [[1, [3, 4], 2]]) == pk('<BxxxxxxxiiB', 1, 3, 4, 2)
    assert be('(y(ii)y)', [[1, [3, 4], 2]]) == pk('>BxxxxxxxiiB', 1, 3, 4, 2)
    assert le('v', [['(ii)', [1, 2]]]) == pk('<B5sxxii', 4, b'(ii)', 1, 2)
    assert le('v', [['i', 1]]) == pk('<B2sxi', 1, b'i', 1)
    assert le('g', ['(ii)']) == pk('<B4sB', 4, b'(ii)', 0)
    # array of 8-aligned elements: padding after length not counted
    assert le('ax', [[5]]) == b'\x08\0\0\0' + b'\0\0\0\0' + struct.pack('<q', 5)
    assert le('ax', [[]]) == b'\0\0\0\0\0\0\0\0'
    assert le('ax', [[]], 4) == b'\0\0\0\0'
    # struct / dict
    assert le('(yx)', [[1, 2]]) == b'\x01' + b'\0' * 7 + struct.pack('<q', 2)
    assert le('a{yy}', [[[1, 2]]]) == b'\x02\0\0\0' + b'\0\0\0\0' + b'\x01\x02'
    # variant: spec example -- signature then aligned value
    assert le('v', [['i', 7]]) == b'\x01i\0\0' + struct.pack('<i', 7)
    assert le('v', [['y', 7]]) == b'\x01y\0\x07'
    assert le('yv', [1, ['x', 3]]) == b'\x01\x01x\0' + b'\0' * 4 + struct.pack('<q', 3)
    # double
    assert le('d', [struct.pack('>d', 1.5).hex()]) == struct.pack('<d', 1.5)
    assert be('d', [struct.pack('>d', 1.5).hex()]) == struct.pack('>d', 1.5)
    # round trips
    for sig, trees in [
        ('a(ys)v', [[[1, 'a'], [2, 'bc']], ['a{sv}', [['k', ['as', ['p', 'q']]]]]]),
        ('aax', [[[1], [], [2, 3]]]),
        ('(i(sa(nq)))', [[1, ['é', [[-1, 2]]]]]),
    ]:
        for off in range(9):
            for little in (True, False):
                raw = encode(sig, trees, off, little)
                got, used = decode(sig, b'\xaa' * off + raw, off, little)
                assert got == trees and used == len(raw), (sig, off, little)
    # The spec's message example: a method call header is 16 bytes + fields
    m = encode_message(1, 7, {1: '/a/b', 3: 'Foo', 2: 'a.b', 6: 'x.y'}, 'su', ['hi', 3])
    dm = decode_message(m)
    assert dm['type'] == 1 and dm['serial'] == 7 and dm['body'] == ['hi', 3]
    assert dm['fields'] == {1: '/a/b', 3: 'Foo', 2: 'a.b', 6: 'x.y', 8: 'su'}
    assert message_length(m[:16]) == len(m)
    mb = encode_message(4, 9, {1: '/', 2: 'a.b', 3: 'S'}, little=False)
    assert decode_message(mb)['little'] is False and message_length(mb[:16]) == len(mb)
    # the byte vector of the repository's tests/test_protocol.py simple method call is
    # checked by C04's own harness; here: known minimal reply is 16+8(field)=24.. bytes
    r = encode_message(2, 1, {5: 1})
    assert len(r) == 24 and decode_message(r)['fields'] == {5: 1}
    # grammar
    assert split_signature('i(ii)i') == ['i', '(ii)', 'i']
    assert split_signature('aa{s(iv)}ay') == ['aa{s(iv)}', 'ay']
    for bad in ['a', '(', '()', '{ss}', 'a{vs}', 'a{s}', 'a{sss}', '(i', 'i)', 'z',
                'a' * 33 + 'i', '(' * 33 + 'i' + ')' * 33, 'i' * 256]:
        assert not is_valid_signature(bad), bad
    for good in ['', 'a' * 32 + 'i', '(' * 32 + 'i' + ')' * 32, 'i' * 255, 'a{sa{sv}}', 'h']:
        assert is_valid_signature(good), good
    # names
    assert is_object_path('/') and is_object_path('/a/b_1') and not is_object_path('/a/')
    assert not is_object_path('') and not is_object_path('a') and not is_object_path('//')
    assert not is_object_path('/a-b')
    assert is_interface_name('a.b') and not is_interface_name('a') and not is_interface_name('a.')
    assert not is_interface_name('a..b') and not is_interface_name('a.1b') and not is_interface_name('.a.b')
    assert not is_interface_name('a-b.c')
    assert is_bus_name('a.b') and is_bus_name(':1.2') and is_bus_name('a-b.c')
    assert not is_bus_name('a:b.c') and not is_bus_name(':.a') and not is_bus_name('1a.b')
    assert not is_bus_name(':1') and not is_bus_name('a.b.') and not is_bus_name(':')
    assert is_member_name('a1_') and not is_member_name('1a') and not is_member_name('a.b') and not is_member_name('')
    assert is_interface_name('a.' + 'b' * 253) and not is_interface_name('a.' + 'b' * 254)
    assert parse_match_rule("type='signal',path='/a',arg0='x,y'") == [
        ('type', 'signal'), ('path', '/a'), ('arg0', 'x,y')]
    assert rule_matches({'path_namespace': '/a/b'}, {'type': 4, 'path': '/a/b/c'})
    assert not rule_matches({'path_namespace': '/a/b'}, {'type': 4, 'path': '/a/bc'})
    assert rule_matches({'arg_paths': {0: '/a/'}}, {'type': 4, 'body': ['/a/b']})
    assert rule_matches({'arg_paths': {0: '/a/b'}}, {'type': 4, 'body': ['/a/']})
    assert not rule_matches({'arg_paths': {0: '/a'}}, {'type': 4, 'body': ['/a/b']})
    return True
