"""
Reference D-Bus authentication *server* state machine, written from the specification
("Authentication state diagrams", server states).  Nondeterministic where the spec or the
property statement leaves the answer open: step() returns every admissible alternative.
"""
import binascii

WFA, WFD, WFB = 'WaitingForAuth', 'WaitingForData', 'WaitingForBegin'
MAX_REJECTS = 5


def _is_hex(b):
    try:
        binascii.unhexlify(b)
        return True
    except (binascii.Error, ValueError):
        return False


def _ascii(b):
    try:
        b.decode('ascii')
        return True
    except UnicodeDecodeError:
        return False


def parse_line(line, offered):
    """Classify a client line (bytes without CR LF) -> (kind, mech, payload)."""
    try:
        line.split(b' ', 1)[0].decode('utf-8')
    except UnicodeDecodeError:
        return ('nonutf8', None, None)
    parts = line.split(b' ', 1)
    cmd = parts[0]
    args = parts[1] if len(parts) > 1 else b''
    if cmd == b'AUTH':
        toks = args.split()
        if not toks:
            return ('auth_none', None, None)
        mech = toks[0]
        if mech not in offered:
            return ('auth_unknown', mech, None)
        if len(toks) == 1:
            return ('auth_ok', mech, None)
        resp = toks[1]
        if not _is_hex(resp):
            return ('auth_badhex', mech, resp)
        raw = binascii.unhexlify(resp)
        if not _ascii(raw):
            return ('auth_nonascii', mech, raw)
        return ('auth_ok', mech, raw)
    if cmd == b'DATA':
        resp = args.strip()
        if not _is_hex(resp):
            return ('data_badhex', None, resp)
        raw = binascii.unhexlify(resp)
        if not _ascii(raw):
            return ('data_nonascii', None, raw)
        return ('data_ok', None, raw)
    if cmd == b'BEGIN':
        return ('begin', None, None)
    if cmd == b'CANCEL':
        return ('cancel', None, None)
    if cmd == b'ERROR':
        return ('error', None, None)
    if cmd == b'NEGOTIATE_UNIX_FD':
        return ('neg', None, None)
    return ('other', None, None)


class State:
    __slots__ = ('state', 'rejects', 'closed', 'authed', 'steps')

    def __init__(self, state=WFA, rejects=0, closed=False, authed=False, steps=0):
        self.state, self.rejects, self.closed, self.authed, self.steps = state, rejects, closed, authed, steps

    def copy(self, **kw):
        s = State(self.state, self.rejects, self.closed, self.authed, self.steps)
        for k, v in kw.items():
            setattr(s, k, v)
        return s

    def key(self):
        return (self.state, self.rejects, self.closed, self.authed, self.steps)


def _reject(st):
    """Alternatives for 'send REJECTED': the sixth rejection closes the connection."""
    n = st.rejects + 1
    if n > MAX_REJECTS:
        return [('close', None, st.copy(rejects=n, closed=True)),
                ('REJECTED+close', None, st.copy(rejects=n, closed=True))]
    return [('REJECTED', None, st.copy(rejects=n, state=WFA))]


def _mech(st, outcome_of):
    """Mechanism consulted: outcome_of(step_index) -> ('OK'|'CONTINUE'|'REJECT', challenge)."""
    o, challenge = outcome_of(st.steps)
    st2 = st.copy(steps=st.steps + 1)
    if o == 'OK':
        return [('OK', None, st2.copy(state=WFB))]
    if o == 'CONTINUE':
        return [('DATA', challenge, st2.copy(state=WFD))]
    return _reject(st2)


def step(st, line, offered, outcome_of):
    """All admissible (response_kind, payload, next_state) for one client line."""
    assert not st.closed and not st.authed
    kind, mech, payload = parse_line(line, offered)
    err = [('ERROR', None, st.copy())]
    close = [('close', None, st.copy(closed=True))]
    if kind == 'nonutf8':
        return err + close
    if st.state == WFA:
        if kind in ('auth_none', 'auth_unknown'):
            return _reject(st)
        if kind == 'auth_ok':
            return _mech(st, outcome_of)
        if kind == 'auth_badhex':
            return err + _reject(st) + close
        if kind == 'auth_nonascii':
            return _mech(st, outcome_of) + err + _reject(st) + close
        if kind == 'begin':
            return close
        if kind == 'error':
            return _reject(st)
        return err
    if st.state == WFD:
        if kind == 'data_ok':
            return _mech(st, outcome_of)
        if kind == 'data_badhex':
            return err + _reject(st) + close
        if kind == 'data_nonascii':
            return _mech(st, outcome_of) + err + _reject(st) + close
        if kind == 'begin':
            return close
        if kind in ('cancel', 'error'):
            return _reject(st)
        return err
    if st.state == WFB:
        if kind == 'begin':
            return [('authenticated', None, st.copy(authed=True))]
        if kind in ('cancel', 'error'):
            return _reject(st)
        if kind == 'neg':
            return err + [('AGREE_UNIX_FD', None, st.copy())]
        return err
    raise AssertionError(st.state)
