"""
Reference model of the message bus name table, from the property statement and the
"Message Bus Names" section of the specification.

queue[name] = list of client ids; element 0 is the owner.  allow[(name, client)] is the
client's allow-replacement flag from its most recent request.
"""

OWNER, IN_QUEUE, EXISTS, ALREADY = 1, 2, 3, 4
RELEASED, NON_EXISTENT, NOT_OWNER = 1, 2, 3


class NameTable:
    def __init__(self):
        self.queue = {}
        self.allow = {}
        self.do_not_queue = {}

    def owner(self, name):
        q = self.queue.get(name)
        return q[0] if q else None

    def request(self, c, name, flags):
        """-> (reply_code, events) ; events: list of ('acquired'|'lost', client, name);
        also returns in self.replaced the former owner when a replacement happened."""
        allow = bool(flags & 1)
        replace = bool(flags & 2)
        dnq = bool(flags & 4)
        self.replaced = None
        q = self.queue.get(name)
        if not q:
            self.queue[name] = [c]
            self.allow[(name, c)] = allow
            self.do_not_queue[(name, c)] = dnq
            return OWNER, [('acquired', c, name)]
        if q[0] == c:
            self.allow[(name, c)] = allow
            self.do_not_queue[(name, c)] = dnq
            return ALREADY, []
        o = q[0]
        if replace and self.allow.get((name, o)):
            if c in q:
                q.remove(c)
            q.pop(0)
            q.insert(0, c)
            self.allow[(name, c)] = allow
            self.do_not_queue[(name, c)] = dnq
            self.allow.pop((name, o), None)
            self.replaced = o       # whether o is re-queued is not stated: see adopt_replaced()
            return OWNER, [('lost', o, name), ('acquired', c, name)]
        if dnq:
            if c in q:
                q.remove(c)
                self.allow.pop((name, c), None)
            return EXISTS, []
        if c not in q:
            q.append(c)
        self.allow[(name, c)] = allow
        self.do_not_queue[(name, c)] = dnq
        return IN_QUEUE, []

    def adopt_replaced(self, name, observed_queue):
        """After a replacement the former owner may be dropped or re-queued (not stated):
        adopt what the bus shows, if the rest of the queue agrees."""
        o = self.replaced
        self.replaced = None
        if o is None:
            return True
        q = self.queue.get(name, [])
        if observed_queue == q:
            return True
        if o in observed_queue and [x for x in observed_queue if x != o] == q and observed_queue[0] == q[0]:
            self.queue[name] = list(observed_queue)
            self.allow[(name, o)] = False
            return True
        return False

    def release(self, c, name):
        q = self.queue.get(name)
        if not q:
            return NON_EXISTENT, []
        if q[0] == c:
            q.pop(0)
            self.allow.pop((name, c), None)
            ev = [('lost', c, name)]
            if q:
                ev.append(('acquired', q[0], name))
            else:
                del self.queue[name]
            return RELEASED, ev
        if c in q:
            q.remove(c)
            self.allow.pop((name, c), None)
            return RELEASED, []
        return NOT_OWNER, []

    def disconnect(self, c):
        ev = []
        for name in sorted(self.queue):
            q = self.queue[name]
            if q and q[0] == c:
                q.pop(0)
                if q:
                    ev.append(('acquired', q[0], name))
            elif c in q:
                q.remove(c)
            self.allow.pop((name, c), None)
        for name in [n for n, q in self.queue.items() if not q]:
            del self.queue[name]
        return ev
