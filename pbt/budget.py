"""
"Bounded time" without a clock: count interpreter line events executed inside txdbus
frames (sys.settrace) and abort the call when a budget is exceeded.
"""
import sys


class BudgetExceeded(BaseException):
    """Deliberately not an Exception: the code under test must not swallow it."""


class Meter:
    def __init__(self, limit, path_part='/txdbus/'):
        self.limit = limit
        self.count = 0
        self.tripped = False
        self.path_part = path_part
        self._cache = {}

    def _global(self, frame, event, arg):
        code = frame.f_code
        ok = self._cache.get(code)
        if ok is None:
            fn = code.co_filename.replace('\\', '/')
            ok = self.path_part in fn and '/verif/' not in fn
            self._cache[code] = ok
        if ok:
            self.count += 1
            return self._local
        return None

    def _local(self, frame, event, arg):
        if event == 'line':
            self.count += 1
            if self.count > self.limit:
                self.tripped = True
                raise BudgetExceeded(self.count)
        return self._local

    def run(self, fn, *args, **kw):
        """Returns ('ok', value) | ('exc', exception) | ('budget', None) | ('memory', None)"""
        old = sys.gettrace()
        sys.settrace(self._global)
        try:
            try:
                v = fn(*args, **kw)
            finally:
                sys.settrace(old)
            if self.tripped:
                return 'budget', None
            return 'ok', v
        except BudgetExceeded:
            return 'budget', None
        except MemoryError:
            return 'memory', None
        except Exception as e:
            if self.tripped:
                return 'budget', None
            return 'exc', e
